"""Minimal Rust/Verus tokenizer and item parser used by the splicer.

It does not understand expressions.  It only needs to (1) find item boundaries, (2) find the
body of an exec function, and (3) recognise the *annotation regions* that Verus adds to an exec
function: header clauses (requires/ensures/...), loop clauses (invariant/decreases/...),
`proof { .. }` blocks, `let ghost ..;` statements, named return values `-> (r: T)` and
attributes.  Everything else in an exec function is executable text and must come from /repo.
"""
import re
from dataclasses import dataclass, field

KW_FN_CLAUSE = {"requires", "ensures", "decreases", "recommends", "returns", "opens_invariants", "no_unwind"}
KW_LOOP_CLAUSE = {"invariant", "invariant_except_break", "ensures", "decreases"}
ITEM_MODS = {"pub", "open", "closed", "spec", "proof", "exec", "broadcast", "uninterp", "tracked", "const", "unsafe", "axiom", "default"}


class ParseError(Exception):
    pass


@dataclass
class Tok:
    kind: str  # id, punct, lit, life
    text: str
    start: int
    end: int


_ws = re.compile(r"\s+")
_ident = re.compile(r"[A-Za-z_][A-Za-z0-9_]*")
_num = re.compile(r"[0-9][0-9A-Za-z_]*(\.[0-9][0-9A-Za-z_]*)?")
_rawstr = re.compile(r'b?r(#*)"')
_char = re.compile(r"b?'(\\.[^']*|[^\\'])'")
_life = re.compile(r"'[A-Za-z_][A-Za-z0-9_]*")


def tokenize(src):
    """returns list of Tok; comments and whitespace are skipped (their text stays in src)"""
    toks = []
    i, n = 0, len(src)
    while i < n:
        c = src[i]
        m = _ws.match(src, i)
        if m:
            i = m.end()
            continue
        if src.startswith("//", i):
            j = src.find("\n", i)
            i = n if j < 0 else j
            continue
        if src.startswith("/*", i):
            depth, j = 1, i + 2
            while depth and j < n:
                if src.startswith("/*", j):
                    depth += 1
                    j += 2
                elif src.startswith("*/", j):
                    depth -= 1
                    j += 2
                else:
                    j += 1
            i = j
            continue
        m = _rawstr.match(src, i)
        if m:
            close = '"' + m.group(1)
            j = src.find(close, m.end())
            if j < 0:
                raise ParseError("unterminated raw string")
            toks.append(Tok("lit", src[i:j + len(close)], i, j + len(close)))
            i = j + len(close)
            continue
        if c == '"' or (c == "b" and i + 1 < n and src[i + 1] == '"'):
            j = i + (2 if c == "b" else 1)
            while j < n and src[j] != '"':
                j += 2 if src[j] == "\\" else 1
            toks.append(Tok("lit", src[i:j + 1], i, j + 1))
            i = j + 1
            continue
        if c == "'" or (c == "b" and i + 1 < n and src[i + 1] == "'"):
            m = _char.match(src, i)
            if m:
                toks.append(Tok("lit", m.group(0), i, m.end()))
                i = m.end()
                continue
            m = _life.match(src, i)
            if m:
                toks.append(Tok("life", m.group(0), i, m.end()))
                i = m.end()
                continue
        m = _ident.match(src, i)
        if m:
            toks.append(Tok("id", m.group(0), i, m.end()))
            i = m.end()
            continue
        m = _num.match(src, i)
        if m:
            toks.append(Tok("lit", m.group(0), i, m.end()))
            i = m.end()
            continue
        for p in ("<==>", "==>", "->", "=>", "::"):
            if src.startswith(p, i):
                toks.append(Tok("punct", p, i, i + len(p)))
                i += len(p)
                break
        else:
            toks.append(Tok("punct", c, i, i + 1))
            i += 1
    return toks


OPEN = {"(": ")", "[": "]", "{": "}"}
CLOSE = {")", "]", "}"}


def match_close(toks, i):
    """toks[i] is an opening bracket; return index of its closing bracket"""
    depth = 0
    j = i
    while j < len(toks):
        t = toks[j].text
        if toks[j].kind == "punct":
            if t in OPEN:
                depth += 1
            elif t in CLOSE:
                depth -= 1
                if depth == 0:
                    return j
        j += 1
    raise ParseError("unbalanced bracket at offset %d" % toks[i].start)


def skip_angles(toks, i):
    """toks[i] is `<`; return index just after the matching `>` (only used in item headers)"""
    depth = 0
    j = i
    while j < len(toks):
        t = toks[j]
        if t.kind == "punct":
            if t.text == "<":
                depth += 1
            elif t.text == ">":
                depth -= 1
                if depth == 0:
                    return j + 1
            elif t.text in OPEN:
                j = match_close(toks, j)
        j += 1
    raise ParseError("unbalanced <> at offset %d" % toks[i].start)


@dataclass
class Item:
    kind: str                 # fn, type, impl, other
    name: str
    lo: int                   # token index range [lo, hi)
    hi: int
    exec_fn: bool = False
    container: str = ""
    children: list = field(default_factory=list)   # for impl
    body_lo: int = -1         # index of the body's `{` (fn) / impl's `{`
    sig_end: int = -1         # fn: index of first token after the plain signature (start of clauses or body)
    header_key: str = ""


def _skip_attrs(toks, i, hi):
    while i < hi and toks[i].text == "#":
        j = i + 1
        if j < hi and toks[j].text == "!":
            j += 1
        if j < hi and toks[j].text == "[":
            i = match_close(toks, j) + 1
        else:
            break
    return i


def find_body_brace(toks, i, hi, clause_kws):
    """scan from i for the body `{` of a fn or loop.  Returns (clause_start or -1, brace_index or -1 (`;`))."""
    clause_start = -1
    j = i
    while j < hi:
        t = toks[j]
        if t.kind == "punct":
            if t.text == ";":
                return clause_start, -1
            if t.text == "{":
                if clause_start < 0 or toks[j - 1].text == ",":
                    return clause_start, j
                j = match_close(toks, j) + 1
                continue
            if t.text in ("(", "["):
                j = match_close(toks, j) + 1
                continue
        elif t.kind == "id" and clause_start < 0 and t.text in clause_kws:
            clause_start = j
        j += 1
    raise ParseError("no body found from offset %d" % toks[i].start)


def parse_items(toks, lo, hi, container=""):
    items = []
    i = lo
    while i < hi:
        start = i
        i = _skip_attrs(toks, i, hi)
        mods = []
        while i < hi and toks[i].kind == "id" and toks[i].text in ITEM_MODS:
            mods.append(toks[i].text)
            i += 1
            if toks[i - 1].text in ("pub", "open", "closed") and i < hi and toks[i].text == "(":
                i = match_close(toks, i) + 1
        if i >= hi:
            raise ParseError("dangling modifiers at end")
        t = toks[i]
        kw = t.text
        if kw == "fn":
            name = toks[i + 1].text
            j = i + 2
            if toks[j].text == "<":
                j = skip_angles(toks, j)
            if toks[j].text != "(":
                raise ParseError("fn %s: expected (" % name)
            j = match_close(toks, j) + 1
            clause_start, brace = find_body_brace(toks, j, hi, KW_FN_CLAUSE)
            if brace < 0:
                # no body: ends at `;`
                k = j
                while toks[k].text != ";":
                    k = match_close(toks, k) + 1 if toks[k].text in OPEN else k + 1
                end = k + 1
            else:
                end = match_close(toks, brace) + 1
            is_exec = not any(m in ("spec", "proof", "axiom") for m in mods)
            it = Item("fn", name, start, end, exec_fn=is_exec and brace >= 0, container=container,
                      body_lo=brace, sig_end=(clause_start if clause_start >= 0 else brace))
            items.append(it)
            i = end
        elif kw in ("struct", "enum", "union"):
            name = toks[i + 1].text
            j = i + 2
            while j < hi:
                if toks[j].text == "<":
                    j = skip_angles(toks, j)
                    continue
                if toks[j].text == ";":
                    end = j + 1
                    break
                if toks[j].text == "{":
                    end = match_close(toks, j) + 1
                    break
                if toks[j].text == "(":
                    j = match_close(toks, j) + 1
                    continue
                j += 1
            else:
                raise ParseError("type %s: no end" % name)
            items.append(Item("type", name, start, end, container=container))
            i = end
        elif kw in ("impl", "trait", "mod"):
            j = i + 1
            while j < hi and toks[j].text != "{":
                if toks[j].text == "<":
                    j = skip_angles(toks, j)
                elif toks[j].text == ";":
                    break
                else:
                    j += 1
            if toks[j].text == ";":
                items.append(Item("other", kw, start, j + 1, container=container))
                i = j + 1
                continue
            header = "".join(x.text for x in toks[i:j])
            header = re.sub(r"\s+", "", header)
            end = match_close(toks, j)
            it = Item("impl", header, start, end + 1, container=container, body_lo=j, header_key=header)
            it.children = parse_items(toks, j + 1, end, container=header)
            items.append(it)
            i = end + 1
        elif kw == "macro_rules":
            j = i + 1
            while toks[j].text not in OPEN:
                j += 1
            end = match_close(toks, j) + 1
            if end < hi and toks[end].text == ";":
                end += 1
            items.append(Item("macro", toks[i + 2].text, start, end, container=container))
            i = end
        elif kw in ("use", "type", "static", "const", "extern", "assume_specification", "group", "let") or (mods and kw not in ("fn",)):
            # ends at `;` or at a brace block (broadcast group / use)
            j = i
            end = None
            while j < hi:
                tt = toks[j].text
                if tt == ";":
                    end = j + 1
                    break
                if tt == "{" and kw == "group":
                    end = match_close(toks, j) + 1
                    break
                if tt in OPEN:
                    j = match_close(toks, j) + 1
                    continue
                j += 1
            if end is None:
                raise ParseError("item `%s` has no end" % kw)
            items.append(Item("other", kw, start, end, container=container))
            i = end
        else:
            raise ParseError("unknown item start `%s` at offset %d" % (kw, t.start))
    return items


def exec_regions(toks, it):
    """For an exec fn item: list of (lo, hi) token index ranges that are annotation (ghost) text."""
    regs = []
    lo, hi = it.lo, it.hi
    # attributes in front
    a = _skip_attrs(toks, lo, hi)
    if a > lo:
        regs.append((lo, a))
    # visibility
    i = a
    while toks[i].text != "fn":
        if toks[i].text == "pub":
            e = i + 1
            if toks[e].text == "(":
                e = match_close(toks, e) + 1
            regs.append((i, e, "vis"))
            i = e
        else:
            i += 1
    # named return: `-> ( ident :` ... `)`
    j = i
    while j < it.sig_end:
        if toks[j].text == "->" and toks[j + 1].text == "(" and toks[j + 2].kind == "id" and toks[j + 3].text == ":" \
                and toks[j + 4].text != ":":
            c = match_close(toks, j + 1)
            regs.append((j + 1, j + 4))
            regs.append((c, c + 1))
            break
        j += 1
    # header clauses
    if it.sig_end < it.body_lo:
        regs.append((it.sig_end, it.body_lo))
    # body
    end = hi - 1
    j = it.body_lo + 1
    while j < end:
        t = toks[j]
        if t.kind == "id":
            if t.text == "proof" and toks[j + 1].text == "{":
                c = match_close(toks, j + 1)
                regs.append((j, c + 1))
                j = c + 1
                continue
            if t.text == "let" and toks[j + 1].kind == "id" and toks[j + 1].text in ("ghost", "tracked"):
                k = j
                while toks[k].text != ";":
                    k = match_close(toks, k) + 1 if toks[k].text in OPEN else k + 1
                regs.append((j, k + 1))
                j = k + 1
                continue
            if t.text in ("while", "loop", "for") and (j == 0 or toks[j - 1].text != "."):
                cs, brace = find_body_brace(toks, j + 1, end, KW_LOOP_CLAUSE)
                if brace >= 0 and cs >= 0:
                    regs.append((cs, brace))
                j += 1
                continue
        if t.text == "#" and toks[j + 1].text == "[":
            c = match_close(toks, j + 1)
            regs.append((j, c + 1))
            j = c + 1
            continue
        j += 1
    regs = [r if len(r) == 3 else (r[0], r[1], "ann") for r in regs]
    regs.sort()
    return regs


def kept_tokens(toks, it, regs):
    """indices of tokens of the item that are executable text"""
    skip = set()
    for a, b, _k in regs:
        skip.update(range(a, b))
    return [k for k in range(it.lo, it.hi) if k not in skip]


def type_kept(toks, it):
    """struct/enum: everything but attributes and `pub`"""
    out = []
    i = it.lo
    while i < it.hi:
        if toks[i].text == "#" and toks[i + 1].text == "[":
            i = match_close(toks, i + 1) + 1
            continue
        if toks[i].text == "pub":
            i += 1
            if toks[i].text == "(":
                i = match_close(toks, i) + 1
            continue
        out.append(i)
        i += 1
    return out
