"""C17 (restricted claim): the functions under contract are the same code in every feature
combination, or else every distinct variant still satisfies the same contracts.

For each subset of {std, macros, par_iter, deser} the crate is macro-expanded and extracted with
that feature set; the extracted text is compared with the `std` baseline.  Identical text means
identical behaviour of every extracted function (same Rust code, same dependencies: core/alloc
only).  A variant that differs is spliced and verified against the same contracts; a failing
obligation is a violation of C17.  Outside this claim: debug_pretty_print's text, par_iter beyond
the syntactic check that its body is `self.nodes.par_iter()`, serde, and the macros crate.
"""
import itertools
import json
import os
import re
import time

from . import pipeline as P

FEATURES = ["std", "macros", "par_iter", "deser"]


def combos():
    out = []
    for r in range(len(FEATURES) + 1):
        for c in itertools.combinations(FEATURES, r):
            out.append(tuple(c))
    return out


def par_iter_ok():
    src = open(os.path.join(P.REPO, "indextree", "src", "arena.rs")).read()
    m = re.search(r"pub fn par_iter\(&self\)[^{]*\{\s*([^}]*)\}", src)
    return bool(m) and re.sub(r"\s+", "", m.group(1)) == "self.nodes.par_iter()"


def check(seed, tier):
    """returns (exit_code, evidence_coverage, violations[list of dict], notes)"""
    t0 = time.time()
    base_text, base_rep = P.extract(("std",), "std")
    variants = {P.sha(base_text): {"features": [("std",)], "text": base_text}}
    notes = []
    sets = combos()
    for fs in sets:
        if fs == ("std",):
            continue
        try:
            text, rep = P.extract(fs, "f_" + ("_".join(fs) or "none"))
        except P.Undecided as e:
            raise P.Undecided("feature set %s: %s" % (",".join(fs) or "(none)", e))
        h = P.sha(text)
        variants.setdefault(h, {"features": [], "text": text})["features"].append(fs)
    violations = []
    verified_variants = 0
    differential = None
    if len(variants) > 1:
        # The code of a function under contract depends on the feature set.  First look for a concrete
        # difference: the same operation sequences are run against the crate built with one feature set
        # of each variant, and everything the calls return (ids, results, traversals, final arena) is compared.
        nrandom = 4000 if tier == "quick" else 20000
        reps = [v["features"][0] for v in variants.values()]
        base = P.digest(reps[0], seed, nrandom)
        differential = {"feature_sets_compared": [",".join(f) or "(none)" for f in reps], "sequences": len(base), "bounded": True}
        for fs in reps[1:]:
            other = P.digest(fs, seed, nrandom)
            differing = [a.split(" ", 1)[1] for a, b in zip(base, other) if a.split(" ", 1)[0] != b.split(" ", 1)[0]]
            differential.setdefault("differing_sequences", {})[",".join(fs) or "(none)"] = len(differing)
            if not differing:
                continue
            ops = min(differing, key=lambda o: (o.count(";"), len(o)))  # the shortest differing sequence
            ta = "\n".join(P.digest(reps[0], seed, nrandom, transcript_ops=ops))
            tb = "\n".join(P.digest(fs, seed, nrandom, transcript_ops=ops))
            fa, fb = ",".join(reps[0]), ",".join(fs)
            violations.append({"obligation": "the same calls give different results with features {%s} and {%s}" % (fa, fb),
                               "function": "(whole crate)", "message": "differential run", "witness_ops": ops,
                               "rendered": "differential: features {%s} vs {%s}; operations: %s\n" % (fa, fb, ops)
                                           + "replay: /verif/check --replay <this file>   (rebuilds the crate with both feature sets and re-runs the sequence)\n"
                                           + "--- features {%s}:\n%s\n--- features {%s}:\n%s\n" % (fa, ta, fb, tb)
                                           + "(per call: returned id / Result; after each call every live node's traverse(); at the end the Debug rendering of the arena)"})
        if violations:
            cov = {"explanation": "the extracted functions differ between feature sets and a bounded differential run found calls whose results differ",
                   "feature_sets": [",".join(fs) or "(none: no_std + alloc)" for fs in sets], "evaluations": len(sets), "distinct_variants": len(variants),
                   "differential": differential, "exhaustive": False, "wall_s": round(time.time() - t0, 1)}
            return cov, violations, notes
    for h, v in variants.items():
        if v["text"] == base_text:
            continue
        # a function body differs under some feature set: verify that variant against the same contracts
        tag = "variant_" + h[:8]
        g = P.generate(features=v["features"][0], tag=tag)
        gi = P.GenIndex(g["gen_text"])
        r = P.run_verus(g["gen_path"], g["gen_text"], label=tag)
        fails, tools, res = P.obligations_from(r, gi)
        if tools:
            raise P.Undecided("feature variant %s does not fit the contracts: %s" % (v["features"][0], tools[0]["message"]))
        verified_variants += 1
        for x in fails + res:
            violations.append({"obligation": "feature set {%s}: %s" % (",".join(v["features"][0]), x["obligation"]),
                               "function": x["function"], "message": x["message"], "rendered": x["rendered"]})
    pi = par_iter_ok()
    if not pi:
        violations.append({"obligation": "Arena::par_iter is no longer `self.nodes.par_iter()` (cannot be claimed to visit the nodes of iter())",
                           "function": "Arena::par_iter", "message": "syntactic check failed", "rendered": ""})
    cov = {
        "explanation": "Extraction repeated for all 16 subsets of {std, macros, par_iter, deser}; %d distinct variant(s) of the extracted "
                       "functions; every variant other than the baseline is verified against the same contracts (here: %d). Identical extracted "
                       "text = identical code for every function under contract, whose only dependencies are core/alloc. par_iter body checked "
                       "syntactically: %s." % (len(variants), verified_variants, "ok" if pi else "CHANGED"),
        "feature_sets": [",".join(fs) or "(none: no_std + alloc)" for fs in sets],
        "evaluations": len(sets),
        "distinct_nontrivial": len(sets),
        "rule": "one evaluation per feature subset; all 16 are distinct configurations and each is macro-expanded and extracted",
        "samples": [{"features": ",".join(fs) or "(none)", "extracted_sha256": h[:16]} for h, v in variants.items() for fs in v["features"]][:16],
        "distinct_variants": len(variants),
        "differential": differential,
        "exhaustive": True,
        "wall_s": round(time.time() - t0, 1),
    }
    return cov, violations, notes
