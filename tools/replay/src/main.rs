//! vx-replay: bounded concrete exploration of the REAL indextree crate through its public API,
//! with one executable oracle per property.  It is the *witness step* of the checks: it is run
//! only after the verifier has failed an obligation, to attach a concrete failing input (an
//! operation sequence that can be replayed) to the report.  It never decides a property.
//!
//! usage: vx-replay explore <seed> <budget_ms>      -> JSON on stdout
//!        vx-replay replay "<op;op;...>"            -> runs one sequence, JSON on stdout
#![allow(deprecated, clippy::all)]
use indextree::{Arena, NodeEdge, NodeId};
use std::cell::RefCell;
use std::collections::{BTreeMap, BTreeSet, HashSet};
use std::num::NonZeroUsize;
use std::panic::{catch_unwind, AssertUnwindSafe};
use std::rc::Rc;
use std::sync::{Arc, Mutex};
use std::time::{Duration, Instant};

// ------------------------------------------------------------------ payload with observable drop
type DropLog = Rc<RefCell<Vec<u32>>>;
#[derive(Debug)]
struct Tok(u32, DropLog);
impl Drop for Tok {
    fn drop(&mut self) {
        self.1.borrow_mut().push(self.0);
    }
}
impl PartialEq for Tok {
    fn eq(&self, o: &Tok) -> bool {
        self.0 == o.0
    }
}
impl Eq for Tok {}
impl Clone for Tok {
    fn clone(&self) -> Tok {
        Tok(self.0, Rc::new(RefCell::new(Vec::new())))
    }
}

// ------------------------------------------------------------------ operations
#[derive(Clone, Copy, Debug, PartialEq)]
enum Ins {
    Append,
    Prepend,
    After,
    Before,
}
#[derive(Clone, Debug, PartialEq)]
enum Op {
    New,
    AppendValue(usize),
    Checked(Ins, usize, usize),   // target, moved
    Unchecked(Ins, usize, usize), // target, moved
    Detach(usize),
    Remove(usize),
    RemoveSubtree(usize),
    Clear,
    Cycle(usize, u32), // remove + new_node on the slot of uid, n times (generation counter)
    Alias,             // from here on removed nodes are named by the id get_node_id reports for their slot
    Versus,            // separates two histories whose arenas are compared (C13: `==` is a faithful observation)
}

fn op_str(o: &Op) -> String {
    let i = |k: &Ins| match k {
        Ins::Append => "append",
        Ins::Prepend => "prepend",
        Ins::After => "insert_after",
        Ins::Before => "insert_before",
    };
    match o {
        Op::New => "new".into(),
        Op::AppendValue(p) => format!("append_value {}", p),
        Op::Checked(k, a, b) => format!("checked_{} {} {}", i(k), a, b),
        Op::Unchecked(k, a, b) => format!("{} {} {}", i(k), a, b),
        Op::Detach(x) => format!("detach {}", x),
        Op::Remove(x) => format!("remove {}", x),
        Op::RemoveSubtree(x) => format!("remove_subtree {}", x),
        Op::Clear => "clear".into(),
        Op::Alias => "alias".into(),
        Op::Versus => "versus".into(),
        Op::Cycle(x, n) => format!("cycle {} {}", x, n),
    }
}

fn parse_ops(s: &str) -> Vec<Op> {
    let mut out = Vec::new();
    for part in s.split(';') {
        let w: Vec<&str> = part.split_whitespace().collect();
        if w.is_empty() {
            continue;
        }
        let n = |k: usize| w[k].parse::<usize>().unwrap();
        let ins = |name: &str| match name {
            "append" => Some(Ins::Append),
            "prepend" => Some(Ins::Prepend),
            "insert_after" => Some(Ins::After),
            "insert_before" => Some(Ins::Before),
            _ => None,
        };
        let op = match w[0] {
            "new" => Op::New,
            "append_value" => Op::AppendValue(n(1)),
            "detach" => Op::Detach(n(1)),
            "remove" => Op::Remove(n(1)),
            "remove_subtree" => Op::RemoveSubtree(n(1)),
            "clear" => Op::Clear,
            "alias" => Op::Alias,
            "versus" => Op::Versus,
            "cycle" => Op::Cycle(n(1), w[2].parse().unwrap()),
            x if x.starts_with("checked_") => Op::Checked(ins(&x[8..]).unwrap(), n(1), n(2)),
            x => Op::Unchecked(ins(x).unwrap(), n(1), n(2)),
        };
        out.push(op);
    }
    out
}

// ------------------------------------------------------------------ reference model
#[derive(Clone, Debug, PartialEq)]
struct MNode {
    alive: bool,
    parent: Option<usize>,
    children: Vec<usize>,
}
#[derive(Clone, Debug)]
struct Model {
    nodes: Vec<MNode>,        // by uid
    chains: Vec<Vec<usize>>,  // top-level sibling chains (every parentless live node is in exactly one)
}
impl Model {
    fn new() -> Model {
        Model { nodes: vec![], chains: vec![] }
    }
    fn add(&mut self) -> usize {
        self.nodes.push(MNode { alive: true, parent: None, children: vec![] });
        let u = self.nodes.len() - 1;
        self.chains.push(vec![u]);
        u
    }
    fn is_anc_or_self(&self, a: usize, mut y: usize) -> bool {
        loop {
            if y == a {
                return true;
            }
            match self.nodes[y].parent {
                Some(p) => y = p,
                None => return false,
            }
        }
    }
    fn impossible(&self, target: usize, moved: usize) -> bool {
        target == moved || !self.nodes[target].alive || !self.nodes[moved].alive || self.is_anc_or_self(moved, target)
    }
    fn list_of(&mut self, x: usize) -> &mut Vec<usize> {
        match self.nodes[x].parent {
            Some(p) => &mut self.nodes[p].children,
            None => {
                let k = self.chains.iter().position(|c| c.contains(&x)).expect("model: parentless node in no chain");
                &mut self.chains[k]
            }
        }
    }
    fn detach(&mut self, x: usize) {
        let l = self.list_of(x);
        let k = l.iter().position(|&y| y == x).unwrap();
        l.remove(k);
        self.nodes[x].parent = None;
        self.chains.retain(|c| !c.is_empty());
        self.chains.push(vec![x]);
    }
    fn drop_singleton(&mut self, x: usize) {
        let k = self.chains.iter().position(|c| c.len() == 1 && c[0] == x).expect("model: not a singleton chain");
        self.chains.remove(k);
    }
    fn insert(&mut self, kind: Ins, target: usize, moved: usize) {
        self.detach(moved);
        self.drop_singleton(moved);
        match kind {
            Ins::Append => {
                self.nodes[target].children.push(moved);
                self.nodes[moved].parent = Some(target);
            }
            Ins::Prepend => {
                self.nodes[target].children.insert(0, moved);
                self.nodes[moved].parent = Some(target);
            }
            Ins::After | Ins::Before => {
                let p = self.nodes[target].parent;
                let l = self.list_of(target);
                let k = l.iter().position(|&y| y == target).unwrap();
                l.insert(if kind == Ins::After { k + 1 } else { k }, moved);
                self.nodes[moved].parent = p;
            }
        }
    }
    fn remove(&mut self, x: usize) {
        let kids = std::mem::take(&mut self.nodes[x].children);
        let p = self.nodes[x].parent;
        for &c in &kids {
            self.nodes[c].parent = p;
        }
        let l = self.list_of(x);
        let k = l.iter().position(|&y| y == x).unwrap();
        l.splice(k..k + 1, kids.iter().cloned());
        self.chains.retain(|c| !c.is_empty());
        self.nodes[x].alive = false;
        self.nodes[x].parent = None;
    }
    fn subtree(&self, x: usize, out: &mut Vec<usize>) {
        out.push(x);
        for &c in &self.nodes[x].children {
            self.subtree(c, out);
        }
    }
    fn remove_subtree(&mut self, x: usize) -> Vec<usize> {
        self.detach(x);
        self.drop_singleton(x);
        let mut all = vec![];
        self.subtree(x, &mut all);
        for &y in &all {
            self.nodes[y].alive = false;
            self.nodes[y].parent = None;
            self.nodes[y].children.clear();
        }
        all
    }
    fn siblings_list(&self, x: usize) -> Vec<usize> {
        match self.nodes[x].parent {
            Some(p) => self.nodes[p].children.clone(),
            None => self.chains.iter().find(|c| c.contains(&x)).cloned().unwrap_or_default(),
        }
    }
    fn edges(&self, x: usize, out: &mut Vec<(bool, usize)>) {
        out.push((true, x));
        for &c in &self.nodes[x].children {
            self.edges(c, out);
        }
        out.push((false, x));
    }
}

// ------------------------------------------------------------------ the system under test + oracles
struct Viol {
    props: Vec<&'static str>,
    msg: String,
}

struct Sut {
    arena: Arena<Tok>,
    ids: Vec<NodeId>,           // by uid
    recycled: Vec<bool>,        // uid's slot has been handed out again (id is stale)
    model: Model,
    log: DropLog,
    issued: HashSet<NodeId>,
    removed_once: Vec<bool>,
    bound: usize,
    handed_out: BTreeMap<usize, u32>,
    mask: BTreeSet<&'static str>, // properties already witnessed in this run: their oracles are skipped
    alias_mode: bool,            // removed nodes are passed under the id get_node_id reports for them
}

/// report a violation unless every property it concerns has already been witnessed in this run
macro_rules! bad {
    ($s:expr, $p:expr, $m:expr) => {
        if !$p.iter().all(|q| $s.mask.contains(q)) {
            return Err(v(&$p, $m));
        }
    };
}

fn all_props() -> BTreeSet<&'static str> {
    ["C01", "C02", "C03", "C04", "C05", "C06", "C07", "C08", "C09", "C10", "C11", "C12", "C13", "MODEL"].into_iter().collect()
}

fn v(props: &[&'static str], msg: String) -> Viol {
    Viol { props: props.to_vec(), msg }
}

impl Sut {
    fn new() -> Sut {
        Sut {
            arena: Arena::new(),
            ids: vec![],
            recycled: vec![],
            model: Model::new(),
            log: Rc::new(RefCell::new(vec![])),
            issued: HashSet::new(),
            removed_once: vec![],
            bound: 64,
            handed_out: BTreeMap::new(),
            mask: BTreeSet::new(),
            alias_mode: false,
        }
    }
    /// the id passed to an operation for node u.  In alias mode a removed, not yet recycled node is named by the id
    /// that `get_node_id` reports for its slot (it carries the slot's removed stamp): another valid way to say "that node"
    fn arg_id(&self, u: usize) -> NodeId {
        let id = self.ids[u];
        if self.alias_mode && !self.model.nodes[u].alive && !self.recycled[u] {
            if let Some(node) = self.arena.as_slice().get(self.pos(id) - 1) {
                if let Some(alias) = self.arena.get_node_id(node) {
                    return alias;
                }
            }
        }
        id
    }
    fn uid_of(&self, id: NodeId) -> Option<usize> {
        // the live uid with this id
        (0..self.ids.len()).find(|&u| self.ids[u] == id && self.model.nodes[u].alive)
    }
    fn pos(&self, id: NodeId) -> usize {
        usize::from(id)
    }

    /// slots that the arena may hand out again: removed, not yet recycled, generation not exhausted
    fn free_positions(&self) -> BTreeSet<usize> {
        let mut s = BTreeSet::new();
        for (i, n) in self.arena.iter().enumerate() {
            if n.is_removed() {
                s.insert(i + 1);
            }
        }
        s
    }

    fn register_new(&mut self, id: NodeId, count_before: usize, free_before: &BTreeSet<usize>, retired: &BTreeSet<usize>, what: &str) -> Result<usize, Viol> {
        let p = self.pos(id);
        // C06: never reissued
        if !self.issued.insert(id) {
            bad!(self, ["C06"], format!("{}: id {:?} was handed out before", what, id));
        }
        // C07 (a slot that has been handed out tens of thousands of times may have been retired for good)
        let _ = retired;
        let avail: BTreeSet<usize> = free_before.iter().cloned().filter(|q| self.handed_out.get(q).cloned().unwrap_or(0) < 30000).collect();
        *self.handed_out.entry(p).or_insert(0) += 1;
        if self.uid_live_at_pos(p).is_some() {
            bad!(self, ["C07", "C08"], format!("{}: returned position {} holds a live node", what, p));
        }
        if !avail.is_empty() {
            if self.arena.count() != count_before {
                bad!(self, ["C07"], format!("{}: a removed slot was available ({:?}) but count() grew {} -> {}", what, avail, count_before, self.arena.count()));
            }
            if !free_before.contains(&p) {
                bad!(self, ["C07"], format!("{}: position {} was not a removed slot", what, p));
            }
        } else if free_before.is_empty() {
            // nothing removed at all: the arena must grow by exactly one
            if self.arena.count() != count_before + 1 || p != count_before + 1 {
                bad!(self, ["C07"], format!("{}: no removed slot, expected position {} and count {}, got {} and {}", what, count_before + 1, count_before + 1, p, self.arena.count()));
            }
        }
        // stale ids of that slot
        for u in 0..self.ids.len() {
            if self.pos(self.ids[u]) == p {
                self.recycled[u] = true;
            }
        }
        let u = self.model.add();
        self.ids.push(id);
        self.recycled.push(false);
        self.removed_once.push(false);
        Ok(u)
    }
    fn uid_live_at_pos(&self, p: usize) -> Option<usize> {
        (0..self.ids.len()).find(|&u| self.model.nodes[u].alive && self.pos(self.ids[u]) == p)
    }

    fn usable(&self, u: usize) -> bool {
        u < self.ids.len() && !self.recycled[u]
    }

    /// applies one operation to arena and model; Err = violation found (or op not applicable -> Ok(false))
    fn apply(&mut self, op: &Op, retired: &mut BTreeSet<usize>) -> Result<bool, Viol> {
        match op {
            Op::New => {
                let cb = self.arena.count();
                let fb = self.free_positions();
                let tokn = self.ids.len() as u32;
                let log = self.log.clone();
                let arena = &mut self.arena;
                let id = match catch_unwind(AssertUnwindSafe(|| arena.new_node(Tok(tokn, log)))) {
                    Ok(id) => id,
                    Err(_) => return Err(v(&["C07", "C05", "C06"], "new_node panicked".into())),
                };
                self.register_new(id, cb, &fb, retired, "new_node")?;
            }
            Op::AppendValue(p) => {
                if !self.usable(*p) {
                    return Ok(false);
                }
                let pid = self.arg_id(*p);
                let cb = self.arena.count();
                let fb = self.free_positions();
                let tokn = self.ids.len() as u32;
                let snap = self.arena.clone();
                // (the snapshot oracles below need a faithful clone; a clone that differs from its original is C13's)
                let snap_ok = snap == self.arena;
                if !snap_ok {
                    bad!(self, ["C13"], "a clone does not compare equal to its original".into());
                }
                let log = self.log.clone();
                let r = catch_unwind(AssertUnwindSafe(|| pid.append_value(Tok(tokn, log), &mut self.arena)));
                let alive = self.model.nodes[*p].alive;
                match r {
                    Err(_) => {
                        if alive {
                            return Err(v(&["C05"], format!("append_value on live node {} panicked", p)));
                        }
                        if snap_ok && self.arena != snap {
                            return Err(v(&["C05", "C12"], format!("append_value on removed node {} panicked but changed the arena", p)));
                        }
                        // the payload moved into the call is dropped by the unwinding: forget it in the log
                        self.log.borrow_mut().retain(|&t| t != tokn);
                    }
                    Ok(id) => {
                        if !alive {
                            return Err(v(&["C05", "C12"], format!("append_value on removed node {} did not panic", p)));
                        }
                        let u = self.register_new(id, cb, &fb, retired, "append_value")?;
                        self.model.insert(Ins::Append, *p, u);
                    }
                }
            }
            Op::Checked(k, a, b) | Op::Unchecked(k, a, b) => {
                if !self.usable(*a) || !self.usable(*b) {
                    return Ok(false);
                }
                let (ia, ib) = (self.arg_id(*a), self.arg_id(*b));
                let imp = self.model.impossible(*a, *b);
                let involves_removed = !self.model.nodes[*a].alive || !self.model.nodes[*b].alive;
                let snap = self.arena.clone();
                // (the snapshot oracles below need a faithful clone; a clone that differs from its original is C13's)
                let snap_ok = snap == self.arena;
                if !snap_ok {
                    bad!(self, ["C13"], "a clone does not compare equal to its original".into());
                }
                let checked = matches!(op, Op::Checked(..));
                let arena = &mut self.arena;
                let r = catch_unwind(AssertUnwindSafe(|| -> Result<(), String> {
                    if checked {
                        match k {
                            Ins::Append => ia.checked_append(ib, arena),
                            Ins::Prepend => ia.checked_prepend(ib, arena),
                            Ins::After => ia.checked_insert_after(ib, arena),
                            Ins::Before => ia.checked_insert_before(ib, arena),
                        }
                        .map_err(|e| format!("{:?}", e))
                    } else {
                        match k {
                            Ins::Append => ia.append(ib, arena),
                            Ins::Prepend => ia.prepend(ib, arena),
                            Ins::After => ia.insert_after(ib, arena),
                            Ins::Before => ia.insert_before(ib, arena),
                        }
                        Ok(())
                    }
                }));
                let mut props: Vec<&'static str> = vec!["C05"];
                if involves_removed {
                    props.push("C12");
                }
                if !imp {
                    // a possible insert that does not happen is also a C03 failure (the node is not put where requested)
                    props.push("C03");
                }
                match (r, checked) {
                    (Err(_), true) => return Err(v(&props, format!("{} panicked", op_str(op)))),
                    (Err(_), false) => {
                        if !imp {
                            return Err(v(&props, format!("{} panicked although the request is possible", op_str(op))));
                        }
                        if snap_ok && self.arena != snap {
                            return Err(v(&props, format!("{} panicked but changed the arena", op_str(op))));
                        }
                    }
                    (Ok(Err(e)), _) => {
                        if !imp {
                            return Err(v(&props, format!("{} failed with {} although the request is possible", op_str(op), e)));
                        }
                        if snap_ok && self.arena != snap {
                            return Err(v(&props, format!("{} failed with {} but changed the arena", op_str(op), e)));
                        }
                        let ok_reason = (a == b && e.ends_with("Self"))
                            || (involves_removed && e == "Removed")
                            || (self.model.nodes[*a].alive && self.model.nodes[*b].alive && a != b && e.ends_with("Ancestor"));
                        if !ok_reason {
                            return Err(v(&["C05"], format!("{} reported {} which does not apply", op_str(op), e)));
                        }
                    }
                    (Ok(Ok(())), _) => {
                        if imp {
                            let mut p2 = props.clone();
                            p2.push("C02");
                            p2.push("C01");
                            return Err(v(&p2, format!("{} succeeded although the request is impossible", op_str(op))));
                        }
                        self.model.insert(*k, *a, *b);
                    }
                }
            }
            Op::Detach(x) => {
                if !self.usable(*x) {
                    return Ok(false);
                }
                let id = self.ids[*x];
                let alive = self.model.nodes[*x].alive;
                let arena = &mut self.arena;
                if catch_unwind(AssertUnwindSafe(|| id.detach(arena))).is_err() {
                    return Err(v(if alive { &["C05", "C03"] } else { &["C05", "C12"] }, format!("detach {} panicked", x)));
                }
                if alive {
                    self.model.detach(*x);
                }
                // (a removed, not yet recycled node has no links: detaching it must change nothing; the
                // structural comparison with the model after this step checks exactly that)
            }
            Op::Remove(x) | Op::RemoveSubtree(x) => {
                if !self.usable(*x) || !self.model.nodes[*x].alive {
                    return Ok(false);
                }
                let id = self.ids[*x];
                let sub = matches!(op, Op::RemoveSubtree(_));
                self.log.borrow_mut().clear();
                let arena = &mut self.arena;
                let r = catch_unwind(AssertUnwindSafe(|| if sub { id.remove_subtree(arena) } else { id.remove(arena) }));
                if r.is_err() {
                    return Err(v(&["C05", "C04"], format!("{} panicked", op_str(op))));
                }
                let gone: Vec<usize> = if sub { self.model.remove_subtree(*x) } else { self.model.remove(*x); vec![*x] };
                // C08: exactly the payloads of the removed nodes are dropped, once each
                let mut dropped = self.log.borrow().clone();
                dropped.sort();
                let mut want: Vec<u32> = gone.iter().map(|&u| u as u32).collect();
                want.sort();
                if dropped != want {
                    // dropping the payload of a node is how its deletion shows: too many or too few is also a C04 failure
                    bad!(self, ["C08", "C04"], format!("{}: payloads dropped {:?}, expected exactly those of the deleted nodes {:?}", op_str(op), dropped, want));
                }
                for &u in &gone {
                    self.removed_once[u] = true;
                }
            }
            Op::Alias => {
                self.alias_mode = true;
            }
            Op::Versus => {}
            Op::Clear => {
                self.log.borrow_mut().clear();
                self.arena.clear();
                // C08: clear() drops exactly the payloads of the nodes that were live, once each
                let mut dropped = self.log.borrow().clone();
                dropped.sort();
                let want: Vec<u32> = (0..self.ids.len()).filter(|&u| self.model.nodes[u].alive).map(|u| u as u32).collect();
                if dropped != want {
                    bad!(self, ["C08"], format!("clear(): payloads dropped {:?}, expected exactly those of the live nodes {:?}", dropped, want));
                }
                self.log.borrow_mut().clear();
                if !(self.arena.is_empty() && self.arena.count() == 0) {
                    bad!(self, ["C13"], "clear(): arena not empty".into());
                }
                let fresh: Arena<Tok> = Arena::new();
                if self.arena != fresh {
                    bad!(self, ["C13"], "after clear() the arena is not equal to Arena::new()".into());
                }
                // the cleared arena itself is kept: what it does from here on is compared with the model of a new one
                let log = self.log.clone();
                let mask = self.mask.clone();
                let arena = std::mem::replace(&mut self.arena, Arena::new());
                *self = Sut::new();
                self.arena = arena;
                self.log = log;
                self.mask = mask;
                retired.clear();
            }
            Op::Cycle(x, n) => {
                if !self.usable(*x) || !self.model.nodes[*x].alive || !self.model.nodes[*x].children.is_empty() {
                    return Ok(false);
                }
                // the node must be an unlinked leaf so that the model stays trivial
                let mut cur = *x;
                for _ in 0..*n {
                    let r = self.apply(&Op::Remove(cur), retired)?;
                    if !r {
                        return Ok(false);
                    }
                    let p = self.pos(self.ids[cur]);
                    // a slot whose generation counter is exhausted may be retired for good (C07)
                    self.apply(&Op::New, retired).map_err(|e| e)?;
                    let nu = self.ids.len() - 1;
                    if self.pos(self.ids[nu]) != p {
                        retired.insert(p);
                    }
                    self.quick_checks()?;
                    cur = nu;
                }
            }
        }
        Ok(true)
    }

    /// cheap per-step oracles used inside the long generation-counter scenarios
    fn quick_checks(&self) -> Result<(), Viol> {
        // is_removed monotone for the most recent ids
        let n = self.ids.len();
        for u in n.saturating_sub(4)..n {
            let id = self.ids[u];
            let alive = self.model.nodes[u].alive;
            if id.is_removed(&self.arena) == alive {
                bad!(self, ["C06"], format!("is_removed({}) is {} but the node is {}", u, alive, if alive { "live" } else { "removed" }));
            }
        }
        // C11: get_node_id_at on every position
        for p in 1..=self.arena.count() {
            let got = self.arena.get_node_id_at(NonZeroUsize::new(p).unwrap());
            let live = self.uid_live_at_pos(p).map(|u| self.ids[u]);
            if got != live {
                bad!(self, ["C11"], format!("get_node_id_at({}) = {:?}, expected {:?}", p, got, live));
            }
        }
        Ok(())
    }

    fn walk<F: Fn(&indextree::Node<Tok>) -> Option<NodeId>>(&self, start: Option<NodeId>, f: F) -> Result<Vec<NodeId>, Viol> {
        let mut out = vec![];
        let mut cur = start;
        while let Some(id) = cur {
            if out.len() > self.bound + self.ids.len() {
                bad!(self, ["C02", "C01"], "link walk does not terminate (cycle)".into());
            }
            out.push(id);
            cur = match self.arena.get(id) {
                Some(n) => f(n),
                None => return Err(v(&["C01"], format!("link names position {} which is out of range", self.pos(id)))),
            };
        }
        Ok(out)
    }

    /// the full set of oracles, evaluated on the current state
    fn check_all(&self) -> Result<(), Viol> {
        let a = &self.arena;
        let n = self.ids.len();
        let lim = self.bound + n;
        // ---- C11 accessors
        if a.count() != a.iter().count() || a.count() != a.as_slice().len() || a.is_empty() != (a.count() == 0) {
            bad!(self, ["C11"], "count()/iter().count()/as_slice().len()/is_empty() disagree".into());
        }
        // out-of-range positions: count()+1 (the first one past the end) and one further out; a panic here is a C11 violation
        // of its own ("get_node_id_at returns None for removed and out-of-range positions")
        for beyond in [1usize, 2, 1000] {
            let p = a.count() + beyond;
            match catch_unwind(AssertUnwindSafe(|| a.get_node_id_at(NonZeroUsize::new(p).unwrap()))) {
                Ok(None) => {}
                Ok(Some(_)) => {
                    bad!(self, ["C11"], format!("get_node_id_at({}) is Some although count() is {}", p, a.count()));
                }
                Err(_) => {
                    bad!(self, ["C11"], format!("get_node_id_at({}) panicked (count() is {}; expected None)", p, a.count()));
                }
            }
        }
        self.quick_checks()?;
        for u in 0..n {
            if self.recycled[u] {
                continue;
            }
            let id = self.ids[u];
            let alive = self.model.nodes[u].alive;
            let node = match a.get(id) {
                Some(x) => x,
                None => return Err(v(&["C11", "C08"], format!("get({}) is None", u))),
            };
            // C06
            if id.is_removed(a) == alive {
                bad!(self, ["C06"], format!("is_removed({}) = {} but node is {}", u, !alive, if alive { "live" } else { "removed" }));
            }
            if node.is_removed() == alive {
                bad!(self, ["C06", "C12"], format!("Node::is_removed of {} disagrees with history", u));
            }
            if !alive {
                // ---- C12: a removed node is out of every tree
                if node.parent().is_some() || node.previous_sibling().is_some() || node.next_sibling().is_some() || node.first_child().is_some() || node.last_child().is_some() {
                    bad!(self, ["C12"], format!("removed node {} still reports links: {}", u, node));
                }
                continue;
            }
            // ---- C08 / C11
            if node.get().0 != u as u32 {
                bad!(self, ["C08"], format!("payload of node {} is {} (expected {})", u, node.get().0, u));
            }
            if self.log.borrow().contains(&(u as u32)) && !self.removed_once[u] {
                bad!(self, ["C08"], format!("payload of live node {} was dropped", u));
            }
            if a[id].get().0 != u as u32 || a.get_node_id(node) != Some(id) || a.get_node_id_at(NonZeroUsize::from(id)) != Some(id) {
                bad!(self, ["C11"], format!("lookup paths disagree for node {}", u));
            }
            if usize::from(id) != NonZeroUsize::from(id).get() || format!("{}", id) != format!("{}", usize::from(id)) {
                bad!(self, ["C11"], format!("usize/NonZeroUsize/Display of node {} disagree", u));
            }
            if !std::ptr::eq(&a.as_slice()[usize::from(id) - 1], node) {
                bad!(self, ["C11"], format!("as_slice position of node {} is not its id", u));
            }
            // ---- C01: local consistency of the reported links
            let links = [node.parent(), node.previous_sibling(), node.next_sibling(), node.first_child(), node.last_child()];
            for l in links.iter().flatten() {
                match self.uid_of(*l) {
                    None => {
                        bad!(self, ["C01", "C12"], format!("live node {} names {:?}, which is removed, stale or unknown", u, l));
                    }
                    Some(_) => {}
                }
            }
            if let Some(nx) = node.next_sibling() {
                if a[nx].previous_sibling() != Some(id) || a[nx].parent() != node.parent() {
                    bad!(self, ["C01"], format!("next sibling of {} does not point back / has another parent", u));
                }
            }
            if let Some(pv) = node.previous_sibling() {
                if a[pv].next_sibling() != Some(id) || a[pv].parent() != node.parent() {
                    bad!(self, ["C01"], format!("previous sibling of {} does not point back / has another parent", u));
                }
            }
            if node.first_child().is_some() != node.last_child().is_some() {
                bad!(self, ["C01"], format!("node {} has a first child but no last child or vice versa", u));
            }
            // ---- C02 / C01: parent walk terminates
            let anc = self.walk(Some(id), |x| x.parent())?;
            // ---- compare with the model: parent, children (C03/C04 attribute at the call site)
            let mp = self.model.nodes[u].parent.map(|p| self.ids[p]);
            if node.parent() != mp {
                bad!(self, ["MODEL"], format!("parent of {} is {:?}, expected {:?}", u, node.parent().map(|x| self.uid_of(x)), self.model.nodes[u].parent));
            }
            let kids = self.walk(node.first_child(), |x| x.next_sibling())?;
            let mk: Vec<NodeId> = self.model.nodes[u].children.iter().map(|&c| self.ids[c]).collect();
            if kids != mk {
                bad!(self, ["MODEL"], format!("children of {} are {:?}, expected {:?}", u, kids.iter().map(|x| self.uid_of(*x)).collect::<Vec<_>>(), self.model.nodes[u].children));
            }
            if node.last_child() != mk.last().cloned() {
                bad!(self, ["C01"], format!("last child of {} is not the end of its child list", u));
            }
            for k in &kids {
                if a[*k].parent() != Some(id) {
                    bad!(self, ["C01"], format!("a node on the child list of {} names another parent", u));
                }
            }
            let sl: Vec<NodeId> = self.model.siblings_list(u).iter().map(|&c| self.ids[c]).collect();
            let me = sl.iter().position(|&x| x == id).unwrap();
            let fwd = self.walk(Some(id), |x| x.next_sibling())?;
            if fwd != sl[me..].to_vec() {
                bad!(self, ["MODEL"], format!("following siblings of {} differ from the expected order", u));
            }
            let bwd = self.walk(Some(id), |x| x.previous_sibling())?;
            let mut exp_b = sl[..=me].to_vec();
            exp_b.reverse();
            if bwd != exp_b {
                bad!(self, ["MODEL"], format!("preceding siblings of {} differ from the expected order", u));
            }
            // ---- C09: iterators yield the documented sequences (bounded pulls)
            let take = |it: &mut dyn Iterator<Item = NodeId>| -> Vec<NodeId> { it.take(lim + 1).collect() };
            let c9 = |name: &str, got: Vec<NodeId>, exp: &Vec<NodeId>| -> Result<(), Viol> {
                if got.len() > lim {
                    bad!(self, ["C02", "C09"], format!("{}({}) does not terminate", name, u));
                }
                if &got != exp {
                    bad!(self, ["C09"], format!("{}({}) yields {:?}, expected {:?}", name, u, got.iter().map(|x| self.uid_of(*x)).collect::<Vec<_>>(), exp.iter().map(|x| self.uid_of(*x)).collect::<Vec<_>>()));
                }
                Ok(())
            };
            c9("ancestors", take(&mut id.ancestors(a)), &anc)?;
            c9("following_siblings", take(&mut id.following_siblings(a)), &fwd)?;
            c9("preceding_siblings", take(&mut id.preceding_siblings(a)), &bwd)?;
            c9("children", take(&mut id.children(a)), &kids)?;
            let mut rk = kids.clone();
            rk.reverse();
            c9("reverse_children", take(&mut id.reverse_children(a)), &rk)?;
            // predecessors: the documented step (previous sibling, else parent) iterated from the node
            let pstep = self.walk(Some(id), |x| x.previous_sibling().or(x.parent()))?;
            c9("predecessors", take(&mut id.predecessors(a)), &pstep)?;
            // traverse / descendants / reverse_traverse against the model's depth-first tour
            let mut tour = vec![];
            self.model.edges(u, &mut tour);
            let exp_edges: Vec<NodeEdge> = tour.iter().map(|&(s, x)| if s { NodeEdge::Start(self.ids[x]) } else { NodeEdge::End(self.ids[x]) }).collect();
            let got_edges: Vec<NodeEdge> = id.traverse(a).take(2 * lim + 2).collect();
            if got_edges != exp_edges {
                bad!(self, ["C09"], format!("traverse({}) yields {} edges that differ from the depth-first tour of its subtree ({} edges)", u, got_edges.len(), exp_edges.len()));
            }
            let mut rev = exp_edges.clone();
            rev.reverse();
            let got_rev: Vec<NodeEdge> = id.reverse_traverse(a).take(2 * lim + 2).collect();
            if got_rev != rev {
                bad!(self, ["C09"], format!("reverse_traverse({}) is not the reversal of traverse", u));
            }
            let exp_desc: Vec<NodeId> = tour.iter().filter(|e| e.0).map(|e| self.ids[e.1]).collect();
            c9("descendants", id.descendants(a).take(lim + 1).collect(), &exp_desc)?;
            // stepping with next_traverse / prev_traverse reproduces the sequences and the steps are inverse
            let mut e = NodeEdge::Start(id);
            for k in 0..exp_edges.len() {
                if e != exp_edges[k] {
                    bad!(self, ["C09"], format!("next_traverse stepping from Start({}) leaves the tour at step {}", u, k));
                }
                if k + 1 < exp_edges.len() {
                    let nx = match e.next_traverse(a) {
                        Some(x) => x,
                        None => return Err(v(&["C09"], format!("next_traverse stops inside the subtree of {}", u))),
                    };
                    if nx.prev_traverse(a) != Some(e) {
                        bad!(self, ["C09"], format!("prev_traverse does not undo next_traverse at step {} of the tour of {}", k, u));
                    }
                    e = nx;
                }
            }
            // ---- C10: double-ended laws
            for (name, fwdv) in [("children", kids.clone()), ("following_siblings", fwd.clone()), ("preceding_siblings", bwd.clone())] {
                let mk_it = |nm: &str| -> Box<dyn DoubleEndedIterator<Item = NodeId> + '_> {
                    match nm {
                        "children" => Box::new(id.children(a)),
                        "following_siblings" => Box::new(id.following_siblings(a)),
                        _ => Box::new(id.preceding_siblings(a)),
                    }
                };
                let back: Vec<NodeId> = mk_it(name).rev().take(lim + 1).collect();
                let mut exp = fwdv.clone();
                exp.reverse();
                if back != exp {
                    bad!(self, ["C10"], format!("{}({}).rev() yields {:?}, expected the forward sequence reversed {:?}", name, u, back.iter().map(|x| self.uid_of(*x)).collect::<Vec<_>>(), exp.iter().map(|x| self.uid_of(*x)).collect::<Vec<_>>()));
                }
                // interleavings: pattern bits choose front/back
                for pat in [0b0101_0101u32, 0b0011_0011, 0b1111_0000, 0b0000_0001, 0b1111_1110] {
                    let mut it = mk_it(name);
                    let (mut lo, mut hi) = (0usize, fwdv.len());
                    let mut seen: Vec<NodeId> = vec![];
                    for step in 0..fwdv.len() + 2 {
                        let front = (pat >> (step % 8)) & 1 == 0;
                        let got = if front { it.next() } else { it.next_back() };
                        let want = if lo < hi {
                            if front {
                                lo += 1;
                                Some(fwdv[lo - 1])
                            } else {
                                hi -= 1;
                                Some(fwdv[hi])
                            }
                        } else {
                            None
                        };
                        if let Some(x) = got {
                            if seen.contains(&x) {
                                // C02: an iterator yields each node at most once, whichever ends it is pulled from
                                bad!(self, ["C02", "C10"], format!("{}({}): pull {} ({}) with pattern {:#b} yields node {:?} a second time", name, u, step, if front { "front" } else { "back" }, pat, self.uid_of(x)));
                            }
                            seen.push(x);
                        }
                        if got != want {
                            bad!(self, ["C10"], format!("{}({}): pull {} ({}) with pattern {:#b} returned {:?}, expected {:?}", name, u, step, if front { "front" } else { "back" }, pat, got.map(|x| self.uid_of(x)), want.map(|x| self.uid_of(x))));
                        }
                    }
                }
            }
        }
        // every live parentless node is in exactly one chain of the model: compare chain structure
        Ok(())
    }
}

// ------------------------------------------------------------------ running sequences
struct Outcome {
    viol: Option<Viol>,
    steps: usize,
}

fn classify_model(v0: Viol, op: &Op) -> Viol {
    // links that are inconsistent right after a structural operation: that operation did not have its documented effect
    if v0.props.contains(&"C01") && !v0.props.contains(&"MODEL") {
        let extra: Option<&'static str> = match op {
            Op::Remove(_) | Op::RemoveSubtree(_) => Some("C04"),
            Op::Checked(..) | Op::Unchecked(..) | Op::Detach(_) | Op::AppendValue(_) => Some("C03"),
            _ => None,
        };
        let mut v1 = v0;
        if let Some(e) = extra {
            if !v1.props.contains(&e) {
                v1.props.push(e);
            }
        }
        return Viol { props: v1.props, msg: format!("after {}: {}", op_str(op), v1.msg) };
    }
    // a structural mismatch with the model is attributed to the operation that caused it
    if v0.props == vec!["MODEL"] {
        let mut p: Vec<&'static str> = match op {
            Op::Remove(_) | Op::RemoveSubtree(_) | Op::Cycle(..) => vec!["C04"],
            Op::New => vec!["C07", "C08"],
            Op::Clear => vec!["C13"],
            _ => vec!["C03"],
        };
        // internal marker: once a structural mismatch has been witnessed, later sequences keep running past
        // such mismatches (the iterator oracles compare against the arena's own links, not the model)
        p.push("MODEL");
        Viol { props: p, msg: format!("after {}: {}", op_str(op), v0.msg) }
    } else {
        Viol { props: v0.props, msg: format!("after {}: {}", op_str(op), v0.msg) }
    }
}

/// C13: two histories `A versus B`.  If the two arenas compare equal they must be indistinguishable: the same
/// allocations afterwards return the same ids and leave equal arenas again.
fn run_versus(ops: &[Op], k: usize) -> Outcome {
    let build = |part: &[Op]| {
        catch_unwind(AssertUnwindSafe(|| {
            let mut t = Sut::new();
            t.mask = all_props();
            let mut r2 = BTreeSet::new();
            for op in part {
                if t.apply(op, &mut r2).is_err() {
                    break;
                }
            }
            t
        }))
    };
    let (a, b) = match (build(&ops[..k]), build(&ops[k + 1..])) {
        (Ok(a), Ok(b)) => (a, b),
        _ => return Outcome { viol: None, steps: ops.len() },
    };
    if a.arena != b.arena {
        return Outcome { viol: None, steps: ops.len() };
    }
    let cont = |mut t: Sut| -> (Vec<NodeId>, Arena<Tok>) {
        let mut ids = vec![];
        for i in 0..4u32 {
            let log = t.log.clone();
            ids.push(t.arena.new_node(Tok(1000 + i, log)));
        }
        (ids, t.arena)
    };
    match catch_unwind(AssertUnwindSafe(|| (cont(a), cont(b)))) {
        Ok(((ia, xa), (ib, xb))) => {
            if ia != ib || xa != xb {
                return Outcome { viol: Some(v(&["C13"], format!("the arenas of the two histories compare equal, but four allocations then return {:?} in one and {:?} in the other", ia.iter().map(|x| usize::from(*x)).collect::<Vec<_>>(), ib.iter().map(|x| usize::from(*x)).collect::<Vec<_>>()))), steps: ops.len() };
            }
        }
        Err(_) => {}
    }
    Outcome { viol: None, steps: ops.len() }
}

fn run_seq(ops: &[Op], heartbeat: &Arc<Mutex<(String, Instant)>>, full_checks: bool, mask: &BTreeSet<&'static str>) -> Outcome {
    if let Some(k) = ops.iter().position(|o| matches!(o, Op::Versus)) {
        if mask.contains("C13") {
            return Outcome { viol: None, steps: ops.len() };
        }
        return run_versus(ops, k);
    }
    let mut s = Sut::new();
    s.mask = mask.clone();
    let mut retired = BTreeSet::new();
    let mut done: Vec<String> = vec![];
    for (k, op) in ops.iter().enumerate() {
        done.push(op_str(op));
        {
            let mut h = heartbeat.lock().unwrap();
            h.0 = done.join("; ");
            h.1 = Instant::now();
        }
        match s.apply(op, &mut retired) {
            Err(e) => return Outcome { viol: Some(classify_model(e, op)), steps: k + 1 },
            Ok(false) => continue,
            Ok(true) => {}
        }
        let r = if full_checks || k + 1 == ops.len() { catch_unwind(AssertUnwindSafe(|| s.check_all())) } else { Ok(Ok(())) };
        match r {
            Err(_) => return Outcome { viol: Some(Viol { props: vec!["C05"], msg: format!("after {}: a read-only accessor or iterator panicked", op_str(op)) }), steps: k + 1 },
            Ok(Err(e)) => return Outcome { viol: Some(classify_model(e, op)), steps: k + 1 },
            Ok(Ok(())) => {}
        }
    }
    // C13: determinism, clone, clear
    let replay = catch_unwind(AssertUnwindSafe(|| {
        let mut t = Sut::new();
        t.mask = all_props(); // a replay only repeats the calls: every oracle is off
        let mut r2 = BTreeSet::new();
        for op in ops {
            if t.apply(op, &mut r2).is_err() {
                break;
            }
        }
        t
    }));
    if let Ok(t) = replay {
        if t.arena != s.arena || t.ids != s.ids {
            return Outcome { viol: Some(v(&["C13"], "replaying the same calls on a new arena gives a different arena or different ids".into())), steps: ops.len() };
        }
        let roomy = catch_unwind(AssertUnwindSafe(|| {
            let mut t = Sut::new();
            t.mask = all_props();
        t.mask = all_props(); // a replay only repeats the calls: every oracle is off
            t.arena = Arena::with_capacity(64);
            t.arena.reserve(100);
            let mut r2 = BTreeSet::new();
            for op in ops {
                if t.apply(op, &mut r2).is_err() {
                    break;
                }
            }
            t
        }));
        if let Ok(t) = roomy {
            if t.arena != s.arena || t.ids != s.ids {
                return Outcome { viol: Some(v(&["C13"], "the same calls on Arena::with_capacity(64) + reserve(100) give different ids or a different arena than on Arena::new()".into())), steps: ops.len() };
            }
        }
        // C13: with_capacity(n) and reserve(k) guarantee room for n and count()+k nodes
        {
            let w: Arena<Tok> = Arena::with_capacity(8);
            if w.capacity() < 8 {
                return Outcome { viol: Some(v(&["C13"], format!("with_capacity(8).capacity() == {}", w.capacity()))), steps: ops.len() };
            }
            for k in [1usize, 3, 5, 8, 17] {
                let mut a2 = s.arena.clone();
                let before = format!("{:?}", a2);
                a2.reserve(k);
                if a2.capacity() < a2.count() + k {
                    return Outcome { viol: Some(v(&["C13"], format!("reserve({}) on an arena of {} slots and capacity {} leaves capacity {} (< count()+k)", k, s.arena.count(), s.arena.capacity(), a2.capacity()))), steps: ops.len() };
                }
                if format!("{:?}", a2) != before || a2 != s.arena {
                    return Outcome { viol: Some(v(&["C13"], format!("reserve({}) changed the arena", k))), steps: ops.len() };
                }
            }
            let mut w2: Arena<u32> = Arena::with_capacity(8);
            for i in 0..5u32 {
                w2.new_node(i);
            }
            w2.reserve(5);
            if w2.capacity() < 10 {
                return Outcome { viol: Some(v(&["C13"], format!("with_capacity(8), five nodes, reserve(5): capacity {} (< 10)", w2.capacity()))), steps: ops.len() };
            }
        }
        let c = s.arena.clone();
        if c != s.arena {
            return Outcome { viol: Some(v(&["C13"], "a clone does not compare equal to its original".into())), steps: ops.len() };
        }
        // clear() then a fixed continuation must behave like a new arena
        let cont = parse_ops("new; new; new; checked_append 0 1; checked_append 0 2; remove 1; new; checked_insert_after 2 3");
        let mut a1 = s.arena.clone();
        a1.clear();
        let run_cont = |arena: Arena<Tok>| -> (Arena<Tok>, Vec<NodeId>) {
            let mut u = Sut::new();
            u.mask = all_props();
            u.arena = arena;
            let mut r3 = BTreeSet::new();
            for op in &cont {
                let _ = u.apply(op, &mut r3);
            }
            (u.arena, u.ids)
        };
        let r = catch_unwind(AssertUnwindSafe(|| (run_cont(a1), run_cont(Arena::new()))));
        match r {
            Ok(((x, xi), (y, yi))) => {
                if x != y || xi != yi {
                    return Outcome { viol: Some(v(&["C13"], "after clear() the arena does not behave like a new one (different ids or arena for the same calls)".into())), steps: ops.len() };
                }
            }
            Err(_) => return Outcome { viol: Some(v(&["C13"], "after clear() a call sequence that works on a new arena panics".into())), steps: ops.len() },
        }
    }
    Outcome { viol: None, steps: ops.len() }
}

// ------------------------------------------------------------------ generation of sequences
struct Rng(u64);
impl Rng {
    fn next(&mut self) -> u64 {
        self.0 ^= self.0 << 13;
        self.0 ^= self.0 >> 7;
        self.0 ^= self.0 << 17;
        self.0
    }
    fn below(&mut self, n: usize) -> usize {
        (self.next() % (n as u64).max(1)) as usize
    }
}

fn random_op(r: &mut Rng, n: usize) -> Op {
    let kinds = [Ins::Append, Ins::Prepend, Ins::After, Ins::Before];
    if n == 0 {
        return Op::New;
    }
    match r.below(20) {
        0 | 1 => Op::New,
        2 => Op::AppendValue(r.below(n)),
        3 => Op::Detach(r.below(n)),
        4 | 5 => Op::Remove(r.below(n)),
        6 => Op::RemoveSubtree(r.below(n)),
        7 => Op::Unchecked(kinds[r.below(4)], r.below(n), r.below(n)),
        _ => Op::Checked(kinds[r.below(4)], r.below(n), r.below(n)),
    }
}

fn scenarios() -> Vec<Vec<Op>> {
    let mut out = vec![];
    // generation counter of one slot across and beyond its range, with and without other free slots
    out.push(parse_ops("new; new; cycle 1 32766; new; remove 0; new; new; remove 2; new"));
    out.push(parse_ops("new; new; new; remove 2; cycle 1 32770; new; new; remove 0; new; new"));
    out.push(parse_ops("new; cycle 0 32770; new; new; remove 0; new"));
    out.push(parse_ops("new; new; new; new; checked_append 0 1; checked_append 0 2; checked_append 1 3; cycle 2 32769; remove_subtree 0; new; new; new; new; new"));
    // the last removal of an exhausted slot happens while another slot is waiting in the free list
    out.push(parse_ops("new; new; cycle 1 32767; remove 0; remove 32768; new; new; new; remove 32769; new; new"));
    out.push(parse_ops("new; new; new; cycle 2 32767; remove 0; remove 1; remove 32769; new; new; new; new; remove 32770; remove 32771; new; new"));
    // a node removed at the end of its slot's generation range is still a removed node
    out.push(parse_ops("new; new; cycle 1 32767; remove 32768; checked_append 0 32768; checked_insert_after 0 32768; append 32768 0; new; checked_prepend 32768 0"));
    // the same nodes freed in two different orders: equal arenas must behave alike
    out.push(parse_ops("new;new;new;new;new; remove 1; remove 2; remove 3; versus; new;new;new;new;new; remove 1; remove 3; remove 2"));
    out.push(parse_ops("new;new;new;new;new;new; remove 1; remove 2; remove 3; remove 4; versus; new;new;new;new;new;new; remove 1; remove 3; remove 2; remove 4"));
    out.push(parse_ops("new;new;new;new;new;new; remove 0; remove 2; remove 4; remove 5; versus; new;new;new;new;new;new; remove 0; remove 4; remove 2; remove 5"));
    out.push(parse_ops("new;new;new;new; checked_append 0 1; remove 2; remove 3; remove 1; versus; new;new;new;new; checked_append 0 1; remove 3; remove 2; remove 1"));
    // clear with pending free slots
    out.push(parse_ops("new; new; new; remove 1; clear; new; new; new; remove 0; new; new"));
    out.push(parse_ops("new; remove 0; clear; new; remove 0; new; new; remove 1; new"));
    out.push(parse_ops("new; new; new; remove 2; clear; new; new; new; remove 0; new; remove 1; new; new"));
    out.push(parse_ops("new; new; new; checked_append 0 1; checked_append 0 2; remove_subtree 0; new; clear; new; new; checked_append 0 1; remove 1; remove 0; new; new; new"));
    out
}

// ------------------------------------------------------------------ digest mode (C17: differential runs)
/// Plain interpreter without oracles: applies the operations through the public API and records what
/// every call returned.  The transcript (results + Debug rendering of the final arena, which covers the
/// slots, the generation stamps and both ends of the free list) is what two builds of the crate with
/// different cargo features are compared on.
fn transcript(ops: &[Op]) -> String {
    let mut out = String::new();
    let mut arena: Arena<u32> = Arena::new();
    let mut ids: Vec<NodeId> = vec![];
    let r = catch_unwind(AssertUnwindSafe(|| {
        for op in ops {
            // an id whose slot has been recycled for another node is not a valid argument any more
            let stale = |arena: &Arena<u32>, id: NodeId| {
                let pos = NonZeroUsize::new(usize::from(id)).unwrap();
                matches!(arena.get_node_id_at(pos), Some(cur) if cur != id)
            };
            let ok = |x: usize| x < ids.len() && !stale(&arena, ids[x]);
            match op {
                Op::New => {
                    let id = arena.new_node(ids.len() as u32);
                    ids.push(id);
                    out.push_str(&format!("{:?};", id));
                }
                Op::AppendValue(p) => {
                    if !ok(*p) || ids[*p].is_removed(&arena) {
                        continue;
                    }
                    let id = ids[*p].append_value(ids.len() as u32, &mut arena);
                    ids.push(id);
                    out.push_str(&format!("{:?};", id));
                }
                Op::Checked(k, a, b) | Op::Unchecked(k, a, b) => {
                    if !ok(*a) || !ok(*b) {
                        continue;
                    }
                    let (t, m) = (ids[*a], ids[*b]);
                    let r = match k {
                        Ins::Append => t.checked_append(m, &mut arena),
                        Ins::Prepend => t.checked_prepend(m, &mut arena),
                        Ins::After => t.checked_insert_after(m, &mut arena),
                        Ins::Before => t.checked_insert_before(m, &mut arena),
                    };
                    out.push_str(&format!("{:?};", r));
                }
                Op::Detach(x) => {
                    if ok(*x) {
                        ids[*x].detach(&mut arena);
                    }
                }
                Op::Remove(x) => {
                    if ok(*x) && !ids[*x].is_removed(&arena) {
                        ids[*x].remove(&mut arena);
                    }
                }
                Op::RemoveSubtree(x) => {
                    if ok(*x) && !ids[*x].is_removed(&arena) {
                        ids[*x].remove_subtree(&mut arena);
                    }
                }
                Op::Alias | Op::Versus => {}
                Op::Clear => {
                    arena.clear();
                    ids.clear();
                }
                Op::Cycle(x, n) => {
                    if !ok(*x) {
                        continue;
                    }
                    let mut cur = ids[*x];
                    // (the whole generation range of a slot is 32768 cycles: differences at its end must show)
                    for _ in 0..*n {
                        if cur.is_removed(&arena) {
                            break;
                        }
                        cur.remove(&mut arena);
                        cur = arena.new_node(7);
                        ids.push(cur);
                    }
                    out.push_str(&format!("{:?}/{};", cur, arena.count()));
                }
            }
            // what a client can observe after the call
            for id in &ids {
                if !id.is_removed(&arena) {
                    out.push_str(&format!("{}:", usize::from(*id)));
                    for e in id.traverse(&arena).take(200) {
                        match e {
                            NodeEdge::Start(n) => out.push_str(&format!("<{}", usize::from(n))),
                            NodeEdge::End(n) => out.push_str(&format!(">{}", usize::from(n))),
                        }
                    }
                    out.push(',');
                }
            }
            out.push('|');
        }
    }));
    if r.is_err() {
        out.push_str("PANIC");
    }
    out.push_str(&format!("{:?}", arena));
    out
}

fn fnv(s: &str) -> u64 {
    let mut h: u64 = 0xcbf29ce484222325;
    for b in s.bytes() {
        h ^= b as u64;
        h = h.wrapping_mul(0x100000001b3);
    }
    h
}

/// deterministic family of sequences for the differential run
fn digest_sequences(seed: u64, nrandom: usize) -> Vec<Vec<Op>> {
    let kinds = [Ins::Append, Ins::Prepend, Ins::After, Ins::Before];
    let mut out: Vec<Vec<Op>> = vec![];
    for (m, d) in [(2usize, 3usize), (3, 2)] {
        let mut alphabet: Vec<Op> = vec![];
        for a in 0..m {
            for b in 0..m {
                for k in kinds {
                    alphabet.push(Op::Checked(k, a, b));
                }
            }
            alphabet.push(Op::Detach(a));
            alphabet.push(Op::Remove(a));
            alphabet.push(Op::RemoveSubtree(a));
        }
        let mut idx = vec![0usize; d];
        'outer: loop {
            let mut ops: Vec<Op> = (0..m).map(|_| Op::New).collect();
            for &i in &idx {
                ops.push(alphabet[i].clone());
            }
            ops.push(Op::New);
            ops.push(Op::New);
            out.push(ops);
            let mut k = d;
            loop {
                if k == 0 {
                    break 'outer;
                }
                k -= 1;
                idx[k] += 1;
                if idx[k] < alphabet.len() {
                    break;
                }
                idx[k] = 0;
            }
        }
    }
    for sc in scenarios() {
        out.push(sc);
    }
    let shapes = [
        "new;new;new;new;new;new; checked_append 0 1; checked_append 1 2; checked_append 1 3; checked_append 0 4; checked_append 4 5",
        "new;new;new;new;new;new;new; checked_append 0 1; checked_append 0 2; checked_append 0 3; checked_append 2 4; checked_append 2 5; checked_append 5 6",
        "new;new;new;new;new; checked_insert_after 0 1; checked_insert_after 1 2; checked_append 1 3; checked_append 1 4",
    ];
    let mut r = Rng(0x9E3779B97F4A7C15 ^ seed.wrapping_mul(0x2545F4914F6CDD1D));
    for i in 0..nrandom {
        let mut ops = if i % 2 == 0 { parse_ops(shapes[(i / 2) % shapes.len()]) } else { vec![Op::New, Op::New] };
        let mut n = ops.iter().filter(|o| matches!(o, Op::New)).count();
        let len = 6 + r.below(14);
        for _ in 0..len {
            let op = random_op(&mut r, n.min(9));
            if matches!(op, Op::New | Op::AppendValue(_)) {
                n += 1;
            }
            ops.push(op);
        }
        ops.push(Op::New);
        ops.push(Op::New);
        ops.push(Op::New);
        out.push(ops);
    }
    out
}

fn main() {
    std::panic::set_hook(Box::new(|_| {}));
    let args: Vec<String> = std::env::args().collect();
    let heartbeat = Arc::new(Mutex::new((String::new(), Instant::now())));
    let hb2 = heartbeat.clone();
    let shared: Arc<Mutex<Vec<String>>> = Arc::new(Mutex::new(vec![]));
    let shared2 = shared.clone();
    // watchdog: an operation that does not return is a termination failure (C02)
    std::thread::spawn(move || loop {
        std::thread::sleep(Duration::from_millis(500));
        let (s, t) = {
            let h = hb2.lock().unwrap();
            (h.0.clone(), h.1)
        };
        if !s.is_empty() && t.elapsed() > Duration::from_secs(20) {
            let mut parts = shared2.lock().unwrap().clone();
            parts.push(format!("{{\"props\":[\"C02\"],\"ops\":{:?},\"msg\":\"the last operation of this sequence (or a traversal after it) does not return\"}}", s));
            println!("{{\"violations\":[{}],\"sequences\":0,\"hang\":true}}", parts.join(","));
            std::process::exit(0);
        }
    });
    let mut found: BTreeMap<&'static str, (String, String)> = BTreeMap::new();
    let mut nseq = 0usize;
    let mut nops = 0usize;
    let mut record = |ops: &[Op], o: Outcome, found: &mut BTreeMap<&'static str, (String, String)>| {
        if let Some(vl) = o.viol {
            let seq: Vec<String> = ops[..o.steps].iter().map(op_str).collect();
            for p in vl.props {
                if !found.contains_key(p) && p != "MODEL" {
                    shared.lock().unwrap().push(format!("{{\"props\":[{:?}],\"ops\":{:?},\"msg\":{:?}}}", p, seq.join("; "), vl.msg));
                }
                found.entry(p).or_insert((seq.join("; "), vl.msg.clone()));
            }
        }
    };
    if args.len() >= 2 && args[1] == "digest" {
        // one line per sequence: <fnv hash of the transcript> <ops>
        let seed: u64 = args.get(2).and_then(|s| s.parse().ok()).unwrap_or(1);
        let nrandom: usize = args.get(3).and_then(|s| s.parse().ok()).unwrap_or(4000);
        for ops in digest_sequences(seed, nrandom) {
            let seq: Vec<String> = ops.iter().map(op_str).collect();
            println!("{:016x} {}", fnv(&transcript(&ops)), seq.join("; "));
        }
        return;
    }
    if args.len() >= 3 && args[1] == "transcript" {
        println!("{}", transcript(&parse_ops(&args[2])));
        return;
    }
    if args.len() >= 3 && args[1] == "replay" {
        let ops = parse_ops(&args[2]);
        let o = run_seq(&ops, &heartbeat, true, &found.keys().cloned().collect());
        nseq = 1;
        nops = ops.len();
        record(&ops, o, &mut found);
    } else {
        let seed: u64 = args.get(2).and_then(|s| s.parse().ok()).unwrap_or(1);
        let budget = Duration::from_millis(args.get(3).and_then(|s| s.parse().ok()).unwrap_or(20000));
        let t0 = Instant::now();
        let hard_cap = budget * 25;
        // 1. exhaustive: m nodes, then every sequence of up to `d` structural operations
        let kinds = [Ins::Append, Ins::Prepend, Ins::After, Ins::Before];
        for m in 2..=4usize {
            let mut alphabet: Vec<Op> = vec![];
            for a in 0..m {
                for b in 0..m {
                    for k in kinds {
                        alphabet.push(Op::Checked(k, a, b));
                    }
                }
                alphabet.push(Op::Detach(a));
                alphabet.push(Op::Remove(a));
                alphabet.push(Op::RemoveSubtree(a));
            }
            let d = if m <= 3 { 3 } else { 2 };
            let mut idx = vec![0usize; d];
            'outer: loop {
                let mut ops: Vec<Op> = (0..m).map(|_| Op::New).collect();
                for &i in &idx {
                    ops.push(alphabet[i].clone());
                }
                let o = run_seq(&ops, &heartbeat, true, &found.keys().cloned().collect());
                nseq += 1;
                nops += ops.len();
                record(&ops, o, &mut found);
                if m <= 3 && ops.iter().any(|o| matches!(o, Op::Remove(_) | Op::RemoveSubtree(_))) {
                    // the same sequence with removed nodes named by the id `get_node_id` reports for their slot
                    let mut aops = vec![Op::Alias];
                    aops.extend(ops.iter().cloned());
                    let o = run_seq(&aops, &heartbeat, true, &found.keys().cloned().collect());
                    nseq += 1;
                    nops += aops.len();
                    record(&aops, o, &mut found);
                }
                let mut k = d;
                loop {
                    if k == 0 {
                        break 'outer;
                    }
                    k -= 1;
                    idx[k] += 1;
                    if idx[k] < alphabet.len() {
                        break;
                    }
                    idx[k] = 0;
                }
                if t0.elapsed() > hard_cap {
                    break;
                }
            }
        }
        // 2. fixed scenarios (generation counter, clear)
        for ops in scenarios() {
            let full = !ops.iter().any(|o| matches!(o, Op::Cycle(..)));
            let o = run_seq(&ops, &heartbeat, full, &found.keys().cloned().collect());
            nseq += 1;
            nops += ops.len();
            record(&ops, o, &mut found);
        }
        // 3. random walks
        let mut r = Rng(0x9E3779B97F4A7C15 ^ seed.wrapping_mul(0x2545F4914F6CDD1D));
        // 3a. random continuations of larger prebuilt shapes (deep chain, wide star, 3-level tree, top-level chain)
        let shapes: Vec<(usize, &str)> = vec![
            (6, "new;new;new;new;new;new; checked_append 0 1; checked_append 1 2; checked_append 2 3; checked_append 3 4; checked_append 4 5"),
            (7, "new;new;new;new;new;new;new; checked_append 0 1; checked_append 0 2; checked_append 0 3; checked_append 0 4; checked_append 0 5; checked_append 0 6"),
            (9, "new;new;new;new;new;new;new;new;new; checked_append 0 1; checked_append 0 2; checked_append 0 3; checked_append 1 4; checked_append 1 5; checked_append 4 6; checked_append 2 7; checked_append 7 8"),
            (5, "new;new;new;new;new; checked_insert_after 0 1; checked_insert_after 1 2; checked_insert_after 2 3; checked_insert_after 3 4"),
            (8, "new;new;new;new;new;new;new;new; checked_append 0 1; checked_append 1 2; checked_append 2 3; checked_append 3 4; checked_append 4 5; checked_append 0 6; checked_insert_after 0 7"),
            (7, "new;new;new;new;new;new;new; checked_prepend 0 1; checked_prepend 0 2; checked_prepend 0 3; checked_insert_before 3 4; checked_prepend 4 5; checked_insert_before 5 6"),
            (8, "new;new;new;new;new;new;new;new; checked_append 0 1; checked_append 0 2; checked_append 1 3; checked_append 1 4; checked_append 2 5; checked_append 2 6; checked_append 6 7; remove 0"),
            // removed nodes whose slots are partly recycled, then more structure on top
            (5, "new;new;new;new; checked_append 0 1; checked_append 0 2; remove_subtree 0; new"),
            (7, "new;new;new;new;new;new; checked_append 0 1; checked_append 1 2; checked_append 1 3; checked_append 1 4; remove 1; new; append_value 6"),
            (7, "new;new;new;new;new;new; checked_append 0 1; checked_append 0 2; checked_append 0 3; checked_append 2 4; remove_subtree 2; new; append_value 6"),
        ];
        // (the amount of work is a number of sequences, not a time: the same seed explores the same sequences
        // on a loaded machine; the time is only a safety cap)
        let shaped_target = nseq + (budget.as_millis() as usize) * 5 / 2;
        'shaped: loop {
            for (n0, shape) in &shapes {
                let mut ops = parse_ops(shape);
                let mut n = *n0;
                let len = 3 + r.below(12);
                for _ in 0..len {
                    let op = random_op(&mut r, n.min(10));
                    if matches!(op, Op::New | Op::AppendValue(_)) {
                        n += 1;
                    }
                    ops.push(op);
                }
                let o = run_seq(&ops, &heartbeat, true, &found.keys().cloned().collect());
                nseq += 1;
                nops += ops.len();
                record(&ops, o, &mut found);
                if nseq >= shaped_target || t0.elapsed() > hard_cap {
                    break 'shaped;
                }
            }
        }
        let random_target = nseq + (budget.as_millis() as usize) * 5 / 2;
        while nseq < random_target && t0.elapsed() < hard_cap {
            let len = 6 + r.below(14);
            let mut ops = if nseq % 3 == 0 { vec![Op::Alias, Op::New, Op::New] } else { vec![Op::New, Op::New] };
            let mut n = 2;
            // every fourth walk clears the arena somewhere in the middle and goes on with the cleared arena
            let clear_at = if r.below(4) == 0 { 2 + r.below(len.max(3) - 2) } else { usize::MAX };
            for k in 0..len {
                if k == clear_at {
                    ops.push(Op::Clear);
                    n = 0;
                    continue;
                }
                let op = random_op(&mut r, n.min(7));
                if matches!(op, Op::New | Op::AppendValue(_)) {
                    n += 1;
                }
                ops.push(op);
            }
            let o = run_seq(&ops, &heartbeat, true, &found.keys().cloned().collect());
            nseq += 1;
            nops += ops.len();
            record(&ops, o, &mut found);
            if nseq % 5 == 0 {
                // the same walk with two of its removals swapped: if the two arenas compare equal they must behave alike
                let rem: Vec<usize> = (0..ops.len()).filter(|&i| matches!(ops[i], Op::Remove(_) | Op::RemoveSubtree(_))).collect();
                if rem.len() >= 2 {
                    let (i, j) = (rem[r.below(rem.len())], rem[r.below(rem.len())]);
                    if i != j {
                        let mut other = ops.clone();
                        other.swap(i, j);
                        let mut both = ops.clone();
                        both.push(Op::Versus);
                        both.extend(other);
                        let o = run_seq(&both, &heartbeat, true, &found.keys().cloned().collect());
                        nseq += 1;
                        nops += both.len();
                        record(&both, o, &mut found);
                    }
                }
            }
        }
    }
    let mut parts = vec![];
    for (p, (seq, msg)) in &found {
        if *p == "MODEL" {
            continue;
        }
        parts.push(format!("{{\"props\":[{:?}],\"ops\":{:?},\"msg\":{:?}}}", p, seq, msg));
    }
    println!("{{\"violations\":[{}],\"sequences\":{},\"operations\":{},\"hang\":false}}", parts.join(","), nseq, nops);
}
