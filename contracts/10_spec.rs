// ============================================================================================
// Specification vocabulary (DESIGN.md §3).  Pure ghost text: spec functions, proof lemmas and
// the assumed specifications of std functions.  Nothing here is executable code of /repo.
// ============================================================================================

// ---- assumed std specs (trusted; listed in evidence) --------------------------------------
pub assume_specification<T>[ Option::<T>::or ](a: Option<T>, b: Option<T>) -> (r: Option<T>)
    ensures
        r == (if a is Some { a } else { b }),
;

pub assume_specification[ i16::is_negative ](x: i16) -> (r: bool)
    ensures
        r == (x < 0),
;

/// `NonZeroUsize` is a plain wrapper around its value (extensionality).
#[verifier::external_body]
pub proof fn axiom_nonzero_ext(a: NonZeroUsize, b: NonZeroUsize)
    requires
        a@ == b@,
    ensures
        a == b,
{
}

// derived `PartialEq` on plain data is structural equality (R6)
impl vstd::std_specs::cmp::PartialEqSpecImpl for NodeId {
    open spec fn obeys_eq_spec() -> bool {
        true
    }

    open spec fn eq_spec(&self, other: &NodeId) -> bool {
        *self == *other
    }
}

impl vstd::std_specs::cmp::PartialEqSpecImpl for NodeEdge {
    open spec fn obeys_eq_spec() -> bool {
        true
    }

    open spec fn eq_spec(&self, other: &NodeEdge) -> bool {
        *self == *other
    }
}

// ---- stamps ---------------------------------------------------------------------------------
impl NodeStamp {
    pub open spec fn removed(self) -> bool {
        self.0 < 0
    }

    /// high-water mark: the largest live generation this slot has had
    pub open spec fn hw(self) -> int {
        if self.0 >= 0 {
            self.0 as int
        } else {
            -(self.0 as int) - 1
        }
    }

    pub open spec fn can_reuse(self) -> bool {
        self.0 < 0 && self.0 > i16::MIN
    }
}

impl NodeId {
    pub open spec fn idx(self) -> int {
        self.index1@ as int - 1
    }
}

pub open spec fn is_data<T>(d: NodeData<T>) -> bool {
    d is Data
}

// ---- arena views ----------------------------------------------------------------------------
impl<T> Arena<T> {
    pub open spec fn has(&self, id: NodeId) -> bool {
        0 <= id.idx() < self.nodes@.len()
    }

    pub open spec fn ohas(&self, id: Option<NodeId>) -> bool {
        id is Some ==> self.has(id->0)
    }

    pub open spec fn at(&self, id: NodeId) -> Node<T> {
        self.nodes@[id.idx()]
    }

    /// the id names the node currently stored in its slot
    pub open spec fn live(&self, id: NodeId) -> bool {
        self.has(id) && self.at(id).stamp == id.stamp && !id.stamp.removed()
    }

    /// the id's node has been removed and its slot not yet recycled
    pub open spec fn dead(&self, id: NodeId) -> bool {
        self.has(id) && !id.stamp.removed() && self.at(id).stamp.0 == -(id.stamp.0 as int) - 1
    }

    /// the quantifier of the properties: "live, or removed and not yet recycled"
    pub open spec fn current(&self, id: NodeId) -> bool {
        self.live(id) || self.dead(id)
    }
}

impl<T> IndexSpecImpl<NodeId> for Arena<T> {
    open spec fn index_req(&self, node: &NodeId) -> bool {
        self.has(*node)
    }
}

// ---- link well-formedness (C01, C12) ---------------------------------------------------------
/// a link names a live node of the current generation of its slot
pub open spec fn tgt_ok<T>(s: Seq<Node<T>>, l: Option<NodeId>) -> bool {
    l is Some ==> 0 <= l->0.idx() < s.len() && s[l->0.idx()].stamp == l->0.stamp && !l->0.stamp.removed()
}

pub open spec fn is_me<T>(s: Seq<Node<T>>, i: int, l: Option<NodeId>) -> bool {
    l is Some && l->0.idx() == i && l->0.stamp == s[i].stamp
}

pub open spec fn no_links<T>(n: Node<T>) -> bool {
    n.parent is None && n.previous_sibling is None && n.next_sibling is None && n.first_child is None
        && n.last_child is None
}

pub open spec fn node_ok<T>(s: Seq<Node<T>>, i: int) -> bool {
    let n = s[i];
    if n.stamp.removed() {
        // C12: a removed node reports no parent, no siblings, no children
        no_links(n)
    } else {
        &&& tgt_ok(s, n.parent) && tgt_ok(s, n.previous_sibling) && tgt_ok(s, n.next_sibling)
            && tgt_ok(s, n.first_child) && tgt_ok(s, n.last_child)
        &&& n.next_sibling is Some ==> {
            let y = n.next_sibling->0.idx();
            y != i && is_me(s, i, s[y].previous_sibling) && s[y].parent == n.parent
        }
        &&& n.previous_sibling is Some ==> {
            let y = n.previous_sibling->0.idx();
            y != i && is_me(s, i, s[y].next_sibling) && s[y].parent == n.parent
        }
        &&& n.parent is Some ==> {
            let p = n.parent->0.idx();
            p != i && (n.previous_sibling is None ==> is_me(s, i, s[p].first_child)) && (n.next_sibling is None
                ==> is_me(s, i, s[p].last_child))
        }
        &&& n.first_child is Some ==> {
            let c = n.first_child->0.idx();
            is_me(s, i, s[c].parent) && s[c].previous_sibling is None
        }
        &&& n.last_child is Some ==> {
            let c = n.last_child->0.idx();
            is_me(s, i, s[c].parent) && s[c].next_sibling is None
        }
        &&& (n.first_child is Some) == (n.last_child is Some)
    }
}

pub open spec fn links_ok<T>(s: Seq<Node<T>>) -> bool {
    forall|i: int| 0 <= i < s.len() ==> #[trigger] node_ok(s, i)
}

// ---- acyclicity witnesses (C02) -------------------------------------------------------------
pub struct Ranks {
    pub depth: spec_fn(int) -> nat,
    pub rem: spec_fn(int) -> nat,
    pub pos: spec_fn(int) -> nat,
    pub bound: nat,
}

pub open spec fn ranked_at<T>(s: Seq<Node<T>>, w: Ranks, i: int) -> bool {
    &&& s[i].next_sibling is Some ==> {
        let j = s[i].next_sibling->0.idx();
        (w.rem)(i) > (w.rem)(j) && (w.pos)(i) < (w.pos)(j)
    }
    &&& s[i].parent is Some ==> (w.depth)(i) > (w.depth)(s[i].parent->0.idx())
    &&& (w.depth)(i) <= w.bound
}

pub open spec fn ranked<T>(s: Seq<Node<T>>, w: Ranks) -> bool {
    forall|i: int| 0 <= i < s.len() ==> #[trigger] ranked_at(s, w, i)
}

// ---- payload / free list (C07, C08) ----------------------------------------------------------
pub open spec fn data_ok<T>(s: Seq<Node<T>>) -> bool {
    forall|i: int| 0 <= i < s.len() ==> ((#[trigger] s[i]).stamp.removed() <==> !(s[i].data is Data))
}

pub open spec fn free_list<T>(s: Seq<Node<T>>, first: Option<usize>, last: Option<usize>, fl: Seq<int>) -> bool {
    &&& fl.no_duplicates()
    &&& forall|k: int| 0 <= k < fl.len() ==> 0 <= #[trigger] fl[k] < s.len()
    &&& (fl.len() == 0 ==> first is None && last is None)
    &&& (fl.len() > 0 ==> first == Some(fl[0] as usize) && last == Some(fl[fl.len() - 1] as usize))
    &&& forall|k: int|
        0 <= k < fl.len() ==> (#[trigger] s[fl[k]]).data == NodeData::<T>::NextFree(
            if k + 1 < fl.len() {
                Some(fl[k + 1] as usize)
            } else {
                None
            },
        ) && s[fl[k]].stamp.can_reuse()
    // no slot is lost: every removed slot that can still be reused is in the list
    &&& forall|i: int| 0 <= i < s.len() && (#[trigger] s[i]).stamp.can_reuse() ==> fl.contains(i)
}

impl<T> Arena<T> {
    pub open spec fn fl_ok(&self) -> bool {
        exists|fl: Seq<int>| free_list(self.nodes@, self.first_free_slot, self.last_free_slot, fl)
    }

    pub open spec fn acyclic(&self) -> bool {
        exists|w: Ranks| ranked(self.nodes@, w)
    }

    /// the representation invariant of every reachable arena
    pub open spec fn wf(&self) -> bool {
        &&& links_ok(self.nodes@)
        &&& self.acyclic()
        &&& data_ok(self.nodes@)
        &&& self.fl_ok()
        &&& self.nodes@.len() < usize::MAX
    }
}

/// everything but the links of a node
pub open spec fn same_payload<T>(a: Node<T>, b: Node<T>) -> bool {
    a.stamp == b.stamp && a.data == b.data
}

pub open spec fn payload_frame<T>(o: Seq<Node<T>>, n: Seq<Node<T>>) -> bool {
    n.len() == o.len() && forall|i: int| 0 <= i < o.len() ==> same_payload(#[trigger] n[i], o[i])
}

pub proof fn lemma_payload_frame_wf<T>(o: Seq<Node<T>>, n: Seq<Node<T>>, first: Option<usize>, last: Option<usize>)
    requires
        payload_frame(o, n),
    ensures
        data_ok(o) ==> data_ok(n),
        forall|fl: Seq<int>| free_list(o, first, last, fl) ==> free_list(n, first, last, fl),
{
    assert forall|fl: Seq<int>| free_list(o, first, last, fl) implies free_list(n, first, last, fl) by {
        assert forall|k: int| 0 <= k < fl.len() implies (#[trigger] n[fl[k]]).data == NodeData::<T>::NextFree(
            if k + 1 < fl.len() {
                Some(fl[k + 1] as usize)
            } else {
                None
            },
        ) && n[fl[k]].stamp.can_reuse() by {
            assert(same_payload(n[fl[k]], o[fl[k]]));
        }
        assert forall|i: int| 0 <= i < n.len() && (#[trigger] n[i]).stamp.can_reuse() implies fl.contains(i) by {
            assert(same_payload(n[i], o[i]));
        }
    }
    if data_ok(o) {
        assert forall|i: int| 0 <= i < n.len() implies ((#[trigger] n[i]).stamp.removed() <==> !(n[i].data is Data)) by {
            assert(same_payload(n[i], o[i]));
        }
    }
}

