#!/bin/bash
# usage: ls -d seeded/s*_* | xargs -P 3 -n 1 tools/batch_seed.sh
# Runs one seeded change (intended property only, PROPS) through tools/seedtest.sh on a SNAPSHOT copy of /verif
# (env VERIF_SNAP, default /var/tmp/verif_snap: `cp -r /verif $VERIF_SNAP; rm -rf $VERIF_SNAP/build` first), so that
# editing /verif meanwhile does not disturb the run.  Logs in /var/tmp/seedlogs/<name>.log; the refreshed meta.json
# lands in the snapshot: copy it back (`cp $VERIF_SNAP/seeded/<name>/meta.json seeded/<name>/`).
export VERIF_DIR=${VERIF_SNAP:-/var/tmp/verif_snap}
cd $VERIF_DIR || exit 3
d=$1
n=$(basename $d)
p=$(python3 -c "import json;print(json.load(open('$d/meta.json'))['breaks_property'])")
export SKIP_CONFIRM=${SKIP_CONFIRM-1}
export PROPS="${PROPS:-$p}"
mkdir -p /var/tmp/seedlogs
{ echo "=== $n ($p)"; tools/seedtest.sh $n $VERIF_DIR/$d $p 2>&1 | cut -c1-300 | grep -E "^checks|^confirm|VIOLATION|UNDECIDED|failing input|failed obligation"; } > /var/tmp/seedlogs/$n.log 2>&1
