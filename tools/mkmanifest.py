#!/usr/bin/env python3
"""regenerates /verif/MANIFEST.json from the table below (kept in one place so it stays valid)"""
import json, os
V = os.path.dirname(os.path.dirname(os.path.abspath(__file__)))
props = [json.loads(l) for l in open(os.path.join(V, "properties.jsonl")) if l.strip()]
TECH = "contract-based deductive verification: Verus requires/ensures/invariants/decreases spliced onto the functions extracted from /repo on every run"
CLAIMS = {
 "C01": ("proof", "wf (link consistency, live targets, rank witnesses, payload tags, free list) is established by new/with_capacity/default/clear and is a proved postcondition of every mutator under contract, for every arena satisfying wf (induction over the call history).", "§4 C01",
         "client discipline on &mut Node<T> (only Node::get_mut is used on references handed out by get_mut/IndexMut/iter_mut; the link fields are crate-private); the result of Arena::iter/iter_mut is std's slice iterator (no view in vstd)"),
 "C02": ("proof", "acyclicity is the existence of rank witnesses inside wf; every loop of the mutators has a discharged decreases clause (rewrite_parents, the four ancestor walks, remove_subtree); iterator finiteness follows from the step contracts and the rank measures; lemma_parent_walk_bound: the parent walk from a live node reaches a parentless node in height(i) < |live nodes| steps (pigeonhole).", "§4 C02",
         "termination of the external_body functions listed in the evidence is not covered"),
 "C03": ("proof", "exact link-level postconditions (moved node, closed gap, new neighbours, every other field of every other slot unchanged) on detach, the four checked inserts, their unchecked forms, append_value and the helpers they are built from.", "§4 C03", "none beyond the common trusted base"),
 "C04": ("proof", "remove: exact link-level effect (children spliced into x's place, every field of every other slot unchanged), payload and free-list frame. remove_subtree: exactly x and its descendants are removed, once each, and every slot outside the subtree keeps all links, its generation and its payload (loop invariant rs_inv), plus well-formedness and termination.", "§4 C04", "none beyond the common trusted base"),
 "C05": ("proof", "each checked insert: Err <=> impossible, the reported reason applies, Err leaves all three fields of the arena unchanged, Ok has the exact effect; every panic site (assert*, debug_assert*, unreachable!, expect, unwrap, indexing, arithmetic) is a discharged obligation; unchecked forms verified under the success precondition.", "§4 C05", "std's expect/unwrap panic exactly on Err/None"),
 "C06": ("proof", "stamp transitions: free_node maps a live stamp g to -(g+1) keeping the high-water mark, Node::reuse yields high-water+1, new_node returns exactly that stamp, every other function leaves stamps unchanged (frame clauses); overflow freedom of the i16 arithmetic is an obligation.", "§4 C06", "machine integers are modelled exactly by Verus (overflow is an obligation)"),
 "C07": ("proof", "ghost free-list sequence: pop_front hands out the oldest free slot, free_node appends exactly once (or retires an exhausted slot), new_node recycles before growing and returns a slot that held no live node, all other slots untouched.", "§4 C07", "Vec<Node<T>> never holds usize::MAX elements (axiom_vec_node_len)"),
 "C08": ("proof", "payload and stamp frame clauses on every function under contract; get/get_mut/Index/IndexMut address exactly the slot of the id. 'Dropped exactly once' rests on Rust ownership and forbid(unsafe_code) and is a stated assumption.", "§4 C08", "Rust ownership semantics for Drop; Verus does not model Drop"),
 "C09": ("proof", "constructors and step functions of all nine traversals are under contract: sibling/children iterators against the ghost deque walk(node) / children_seq(node) (the documented order), ancestors/predecessors/reverse_children step laws, next_traverse/prev_traverse equal the documented depth-first step and are proved mutually inverse, Traverse/ReverseTraverse stop exactly at End(root)/Start(root), Descendants::next returns the next Start edge of Traverse. Whole-sequence theorems as lemmas over those contracts: traverse = tour_node (balanced, pre-order, confined to the subtree), reverse_traverse = its reversal, descendants = preorder_node (lemma_descendants_is_preorder).", "§4 C09", "predecessors only as a step law (previous sibling, else parent), not as a closed-form sequence"),
 "C10": ("proof", "next/next_back of children, following_siblings and preceding_siblings are verified against a ghost deque: front pulls pop the front, back pulls pop the back, both fused at empty; the three constructors are proved to establish the deque with the documented sequence (including parentless nodes, where the far end is found by walking).", "§4 C10", "none beyond the common trusted base"),
 "C11": ("proof", "accessor contracts: get/Index/IndexMut/get_node_id_at/count/is_empty/as_slice/usize::from/NonZeroUsize::from agree with the slot view (proved). get_node_id: the four-statement raw-pointer idiom is replaced by the trusted primitive vx_slice_position (extraction rule R8, exact token match); the rest of the function is proved (a returned id names the slot holding the node and carries that slot's stamp). That a node of this arena is found at all (the round trip returns Some) depends on the pointer idiom: Kani harnesses check the round trip on arenas of at most 3 slots with one removal and one recycling (quick tier: two harnesses, ~1 min; thorough tier: three, ~15 min); that part is BOUNDED and not counted as proved.", "§4 C11", "iter()/iter_mut()/Display delegate to std; get_node_id: pointer idiom trusted (vx_slice_position), its completeness only bounded (Kani, <= 3 slots); a node of another arena cannot be checked in CBMC's pointer model"),
 "C12": ("proof", "a removed slot has no links (part of wf, hence after every operation), no link of a live node targets a removed slot or an old generation, inserts with a removed id in either position are refused without change, Node::reuse starts with no links.", "§4 C12", "none beyond the common trusted base"),
 "C17": ("other", "restricted claim: the extraction is repeated for all 16 subsets of {std, macros, par_iter, deser}; the functions under contract are token-identical in every subset (today: one variant; cfg attributes inside bodies are evaluated per subset); if variants differ, a bounded differential run of the real crate built with each variant's features looks for calls whose results differ (replayable witness), and every differing variant is verified against the same contracts; par_iter's body is checked syntactically. Whole-crate behaviour (pretty-printed text, serde, macros) is outside the claim.", "§4 C17", "only the functions under contract; identical extracted text is taken as identical behaviour because their only dependencies are core/alloc"),
 "C13": ("proof", "new/default/with_capacity/clear all yield the same three fields (empty, no free slots); reserve/with_capacity change nothing observable; every contract is a function of the three fields that derive(PartialEq) compares; the derive lists of Arena/Node/NodeData/NodeId/NodeStamp are themselves an obligation (a type that no longer derives Clone/PartialEq/Eq fails C13).", "§4 C13", "derive(Clone, PartialEq) are structural (a lost derive is undecided unless the witness step finds a history on which clone/== misbehave); the capacity guarantee of with_capacity/reserve is std's and cannot be a contract (no capacity in vstd's view of Vec): the three one-line functions are compared with the verified text and a change is handed to the witness step"),
}
NA = {
 "C14": "the pretty printer is &str scanning into fmt::Formatter; the installed Verus rejects str byte reasoning and format_args!, so no contract within reach can state the output text",
 "C15": "quantifies over macro input programs of a proc-macro built on syn/quote; verifying a hand-written model of it would be proving a model, a different family",
 "C16": "behaviour is serde_derive output against an arbitrary Serializer/Deserializer; there is no function of this crate to put a contract on",
 "C18": "auto-trait inference and absence of unsafe are decided by rustc; concurrency is outside Verus (no permission-typed code here) and Kani (no threads)",
}
checks = []
for p in props:
    pid = p["id"]
    if pid in CLAIMS:
        cat, text, ref, note = CLAIMS[pid]
        checks.append({
            "property_id": pid,
            "quick_cmd": "./check %s --tier quick" % pid,
            "thorough_cmd": "./check %s --tier thorough" % pid,
            "evidence_file": "/verif/evidence/%s.json" % pid,
            "replay_cmd_template": "./check --replay {path}",
            "engine": "vx",
            "level_claimed": {"category": cat, "text": text, "design_ref": ref},
            "level_note": note + "; common trusted base: Verus+Z3, extraction rules R0-R8, panic primitives as obligations, structural derives, NonZeroUsize extensionality",
            "technique": TECH if cat == "proof" else "per-feature mechanical extraction + token comparison; differing variants re-verified with Verus against the same contracts",
        })
m = {
 "version": 1,
 "setup_cmd": "cd /verif/tools/vx-extract && CARGO_NET_OFFLINE=true cargo build --offline --release",
 "hooks": {"guard": "none: no hook or instrumentation is committed to /repo (contracts are spliced onto a mechanical extraction of the working tree; Kani harnesses, where used, live in a scratch copy under cfg(kani))",
           "enable": "n/a (checks read /repo's working tree directly)",
           "baseline_off_cmd": "cd /repo && cargo test --workspace --no-fail-fast --offline",
           "source_commits": [], "add_only": True},
 "engines": [{"name": "vx", "path": "/verif/check", "serves_properties": sorted(CLAIMS), "kind_free_text": "syn-based extractor + token-aligned contract splicer + Verus (Z3) + obligation table"}],
 "checks": checks,
 "not_applicable": [{"property_id": k, "reason": v} for k, v in sorted(NA.items()) if k not in CLAIMS],
 "notes": "Seven genuine defects were repaired in /repo with separate 'fix:' commits (see known_findings.json and DESIGN.md section 6).",
}
json.dump(m, open(os.path.join(V, "MANIFEST.json"), "w"), indent=1)
print("claims:", sorted(CLAIMS), "n/a:", sorted(k for k in NA if k not in CLAIMS))
