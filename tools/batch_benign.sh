#!/bin/bash
# usage: ls seeded/benign/*.diff | xargs -P 3 -n 1 tools/batch_benign.sh
# Applies one behaviour-preserving edit in a scratch worktree of /repo, runs the crate's tests and every registered
# check on it (snapshot copy of /verif in env VERIF_SNAP, default /var/tmp/verif_snap2).  Log: /var/tmp/benignlogs/<name>.log
# (one line `<name>: tests_exit=.. checks: C01=.. ...`; no check may exit 1).
V=${VERIF_SNAP:-/var/tmp/verif_snap2}
cd $V || exit 3
d=$1
n=$(basename $d .diff)
WT=/var/tmp/benignwt.$n; B=/var/tmp/benignvx.$n
rm -rf $WT $B; git -C /repo worktree add -q --detach $WT HEAD
mkdir -p /var/tmp/benignlogs
{
(cd $WT && git apply $V/$d) || { echo "$n: patch failed"; exit; }
(cd $WT && timeout 1800 cargo test --workspace --offline -q >/dev/null 2>&1); st=$?
RES=""
for p in $(python3 -c "import json;print(' '.join(c['property_id'] for c in json.load(open('MANIFEST.json'))['checks']))"); do
  VX_REPO=$WT VX_BUILD=$B timeout 3000 ./check $p > $B.$p.log 2>&1; rc=$?
  RES="$RES $p=$rc"
  if [ $rc -ne 0 ]; then grep -E "^(failed obligation|VIOLATION|UNDECIDED)" $B.$p.log | head -3 | cut -c1-260 | sed "s/^/   [$p] /"; fi
done
echo "$n: tests_exit=$st checks:$RES"
} > /var/tmp/benignlogs/$n.log 2>&1
git -C /repo worktree remove --force $WT; rm -rf $B $B.*.log
