macro_rules! debug_assert_triangle_nodes {
    ($ arena : expr , $ parent : expr , $ previous : expr , $ next : expr $ (,) ?) => {{
        if cfg!(debug_assertions) {
            assert_triangle_nodes($arena, $parent, $previous, $next);
        }
    }};
}
#[derive(Debug, Clone, Copy)]
pub enum NodeError {
    AppendSelf,
    PrependSelf,
    InsertBeforeSelf,
    InsertAfterSelf,
    Removed,
    AppendAncestor,
    PrependAncestor,
    InsertBeforeAncestor,
    InsertAfterAncestor,
}
#[derive(Debug, Clone, Copy)]
pub enum ConsistencyError {
    ParentChildLoop,
    SiblingsLoop,
}
#[derive(PartialEq, Eq, Copy, Clone, Debug)]
pub struct NodeId {
    pub index1: NonZeroUsize,
    pub stamp: NodeStamp,
}
#[derive(PartialEq, Eq, Copy, Clone, Debug, Default, Structural)]
pub struct NodeStamp(pub i16);
impl NodeStamp {
    pub fn is_removed(self) -> (r: bool)
        // @props C06 C12
        ensures
            // @ob C06.NodeStamp_is_removed_generation_arithmetic C06
            r == self.removed(),
    {
        self.0.is_negative()
    }
    pub fn as_removed(&mut self)
        // @props C06 C07
        requires
            !old(self).removed(),
        ensures
            // @ob C06.as_removed_is_removed C06 C12
            final(self).removed(),
            // @ob C06.as_removed_keeps_high_water C06
            final(self).hw() == old(self).hw(),
            // @ob C06.NodeStamp_as_removed_generation_arithmetic C06
            final(self).0 == -old(self).0 - 1,
    {
        debug_assert!(!self.is_removed());
        self.0 = -self.0 - 1;
    }
    pub fn reuseable(self) -> (r: bool)
        // @props C06 C07
        requires
            self.removed(),
        ensures
            // @ob C06.NodeStamp_reuseable_generation_arithmetic C06
            r == self.can_reuse(),
    {
        debug_assert!(self.is_removed());
        self.0 > i16::MIN
    }
    pub fn reuse(&mut self) -> (r: Self)
        // @props C06 C07
        requires
            old(self).can_reuse(),
        ensures
            // @ob C06.reuse_is_live C06
            !final(self).removed(),
            // @ob C06.reuse_exceeds_high_water C06
            final(self).hw() == old(self).hw() + 1,
            // @ob C06.NodeStamp_reuse_generation_arithmetic C06
            final(self).0 == -old(self).0,
            // @ob C06.NodeStamp_reuse_generation_arithmetic C06
            r == *final(self),
    {
        debug_assert!(self.reuseable());
        self.0 = -self.0;
        *self
    }
}
#[verifier::external]
impl From<NodeId> for NonZeroUsize {
    fn from(value: NodeId) -> NonZeroUsize {
        value.index1
    }
}
pub fn from_NodeId_for_NonZeroUsize(value: NodeId) -> (r: NonZeroUsize)
        // @props C11
        ensures
            // @ob C11.nonzero_from_id_is_position C11
            r@ == value.idx() + 1,
    {
        value.index1
    }
#[verifier::external]
impl From<NodeId> for usize {
    fn from(value: NodeId) -> usize {
        value.index1.get()
    }
}
pub fn from_NodeId_for_usize(value: NodeId) -> (r: usize)
        // @props C11
        ensures
            // @ob C11.usize_from_id_is_position C11
            r == value.idx() + 1,
    {
        value.index1.get()
    }
impl NodeId {
    pub fn index0(self) -> (r: usize)
        // @props C11
        ensures
            // @ob C11.NodeId_index0_position_is_index1_minus_one C11
            r == self.idx(),
    {
        self.index1.get() - 1
    }
    pub fn from_non_zero_usize(index1: NonZeroUsize, stamp: NodeStamp) -> (r: Self)
        // @props C11
        ensures
            // @ob C11.NodeId_from_non_zero_usize_position_is_index1_minus_one C11
            r.index1 == index1,
            // @ob C11.NodeId_from_non_zero_usize_position_is_index1_minus_one C11
            r.stamp == stamp,
            // @ob C11.NodeId_from_non_zero_usize_position_is_index1_minus_one C11
            r.idx() == index1@ - 1,
    {
        NodeId { index1, stamp }
    }
    pub fn is_removed<T>(self, arena: &Arena<T>) -> (r: bool)
        // @props C06
        requires
            arena.has(self),
        ensures
            // @ob C06.is_removed_compares_generation C06
            r == (arena.at(self).stamp != self.stamp),
    {
        arena[self].stamp != self.stamp
    }
    pub fn ancestors<T>(self, arena: &Arena<T>) -> (r: Ancestors<'_, T>)
        // @props C09 C02
        ensures
            // @ob C09.NodeId_ancestors_starts_where_documented C09
            r.0.arena == arena && r.0.node == Some(self),
    {
        Ancestors::new(arena, self)
    }
    pub fn predecessors<T>(self, arena: &Arena<T>) -> (r: Predecessors<'_, T>)
        // @props C09
        ensures
            // @ob C09.NodeId_predecessors_starts_where_documented C09
            r.0.arena == arena && r.0.node == Some(self),
    {
        Predecessors::new(arena, self)
    }
    pub fn preceding_siblings<T>(self, arena: &Arena<T>) -> (r: PrecedingSiblings<'_, T>)
        // @props C09 C10
        requires
            arena.wf(),
            arena.live(self),
        ensures
            // @ob C09.NodeId_preceding_siblings_starts_where_documented C09
            r.0.arena == arena,
            // @ob C09.preceding_siblings_yield_the_documented_sequence C09 C10
            forall|w: Ranks| #[trigger]
                ranked(arena.nodes@, w) ==> deq(arena.nodes@, r.0.head, r.0.tail, walk(arena.nodes@, w, self, false), false),
    {
        PrecedingSiblings::new(arena, self)
    }
    pub fn following_siblings<T>(self, arena: &Arena<T>) -> (r: FollowingSiblings<'_, T>)
        // @props C09 C10
        requires
            arena.wf(),
            arena.live(self),
        ensures
            // @ob C09.NodeId_following_siblings_starts_where_documented C09
            r.0.arena == arena,
            // @ob C09.following_siblings_yield_the_documented_sequence C09 C10
            forall|w: Ranks| #[trigger]
                ranked(arena.nodes@, w) ==> deq(arena.nodes@, r.0.head, r.0.tail, walk(arena.nodes@, w, self, true), true),
    {
        FollowingSiblings::new(arena, self)
    }
    pub fn children<T>(self, arena: &Arena<T>) -> (r: Children<'_, T>)
        // @props C09 C10
        requires
            arena.wf(),
            arena.has(self),
        ensures
            // @ob C09.NodeId_children_starts_where_documented C09
            r.0.arena == arena,
            // @ob C09.children_yield_the_documented_sequence C09 C10
            forall|w: Ranks| #[trigger]
                ranked(arena.nodes@, w) ==> deq(arena.nodes@, r.0.head, r.0.tail, children_seq(arena.nodes@, w, self.idx()), true),
    {
        Children::new(arena, self)
    }
    pub fn reverse_children<T>(self, arena: &Arena<T>) -> (r: ReverseChildren<'_, T>)
        // @props C09
        requires
            arena.has(self),
        ensures
            // @ob C09.NodeId_reverse_children_starts_where_documented C09
            r.0.arena == arena && r.0.node == arena.at(self).last_child,
    {
        ReverseChildren::new(arena, self)
    }
    pub fn descendants<T>(self, arena: &Arena<T>) -> (r: Descendants<'_, T>)
        // @props C09
        ensures
            // @ob C09.NodeId_descendants_starts_where_documented C09
            r.0.arena == arena && r.0.root == self && r.0.next == Some(NodeEdge::Start(self)),
    {
        Descendants::new(arena, self)
    }
    pub fn traverse<T>(self, arena: &Arena<T>) -> (r: Traverse<'_, T>)
        // @props C09
        ensures
            // @ob C09.NodeId_traverse_starts_where_documented C09
            r.arena == arena && r.root == self && r.next == Some(NodeEdge::Start(self)),
    {
        Traverse::new(arena, self)
    }
    pub fn reverse_traverse<T>(self, arena: &Arena<T>) -> (r: ReverseTraverse<'_, T>)
        // @props C09
        ensures
            // @ob C09.NodeId_reverse_traverse_starts_where_documented C09
            r.arena == arena && r.root == self && r.next == Some(NodeEdge::End(self)),
    {
        ReverseTraverse::new(arena, self)
    }
    pub fn detach<T>(self, arena: &mut Arena<T>)
        // @props C01 C02 C03 C05 C08 C12
        requires
            old(arena).wf(),
            old(arena).has(self),
        ensures
            // @ob C01.links_well_formed@detach C01 C12
            links_ok(final(arena).nodes@),
            // @ob C02.acyclic@detach C02 C01
            final(arena).acyclic(),
            // @ob C08.payload_tags_consistent@detach C08
            data_ok(final(arena).nodes@),
            // @ob C07.free_list_well_formed@detach C07
            final(arena).fl_ok(),
            // @ob C08.detach_keeps_every_payload_and_stamp C08
            payload_frame(old(arena).nodes@, final(arena).nodes@),
            // @ob C03.detach_exact_effect C03
            detach_post(old(arena).nodes@, final(arena).nodes@, self.idx()),
            // @ob C07.NodeId_detach_leaves_the_head_of_the_free_list_alone C07
            final(arena).first_free_slot == old(arena).first_free_slot,
            // @ob C07.NodeId_detach_leaves_the_tail_of_the_free_list_alone C07
            final(arena).last_free_slot == old(arena).last_free_slot,
            // @ob C02.detach_keeps_rank_witness C02
            forall|w: Ranks| ranked(old(arena).nodes@, w) ==> ranked(final(arena).nodes@, w),
    {
        proof {
            let w = choose|w: Ranks| ranked(old(arena).nodes@, w);
            lemma_neighbors_distinct(old(arena).nodes@, w, self.idx());
        }
        let range = SiblingsRange::new(self, self).detach_from_siblings(arena);
        proof {
            assert(is_chain(arena.nodes@, self.idx(), seq![self.idx()]));
        }
        let ghost mid = arena.nodes@;
        range
            .rewrite_parents(arena, None)
            .expect("Should never happen: `None` as parent is always valid");
        proof {
            let c = seq![self.idx()];
            assert(is_chain(mid, self.idx(), c));
            assert(c.contains(self.idx())) by {
                assert(c[0] == self.idx());
            }
            assert forall|i: int| i != self.idx() implies !c.contains(i) by {}
            assert(detach_post(old(arena).nodes@, arena.nodes@, self.idx()));
            assert forall|w: Ranks| ranked(old(arena).nodes@, w) implies ranked(arena.nodes@, w) by {
                lemma_detach_wf(old(arena).nodes@, arena.nodes@, self.idx(), w);
            }
            let w = choose|w: Ranks| ranked(old(arena).nodes@, w);
            lemma_detach_wf(old(arena).nodes@, arena.nodes@, self.idx(), w);
            lemma_relink_wf(*old(arena), *arena);
        }
        debug_assert!(
            arena[self].is_detached(),
            "The node should be successfully detached"
        );
    }
    pub fn append<T>(self, new_child: NodeId, arena: &mut Arena<T>)
        // @props C01 C03 C05 C12
        requires
            old(arena).wf(),
            old(arena).current(self),
            old(arena).current(new_child),
            // the unchecked form panics exactly when the checked form fails (see the must-panic variant)
            !insert_impossible(old(arena).nodes@, self, new_child),
        ensures
            // @ob C01.links_well_formed@append C01 C12
            links_ok(final(arena).nodes@),
            // @ob C02.acyclic@append C02 C01
            final(arena).acyclic(),
            // @ob C08.payload_tags_consistent@append C08
            data_ok(final(arena).nodes@),
            // @ob C07.free_list_well_formed@append C07
            final(arena).fl_ok(),
            // @ob C07.NodeId_append_leaves_the_head_of_the_free_list_alone C07
            final(arena).first_free_slot == old(arena).first_free_slot,
            // @ob C07.NodeId_append_leaves_the_tail_of_the_free_list_alone C07
            final(arena).last_free_slot == old(arena).last_free_slot,
            // @ob C05.append_has_the_effect_of_the_checked_form C05 C03
            exists|m: Seq<Node<T>>| #[trigger]
                detach_post(old(arena).nodes@, m, new_child.idx()) && insert_post(
                    m,
                    final(arena).nodes@,
                    new_child,
                    Some(self),
                    m[self.idx()].last_child,
                    None,
                ),
    {
        self.checked_append(new_child, arena)
            .expect("Preconditions not met: invalid argument");
    }
    pub fn checked_append<T>(
        self,
        new_child: NodeId,
        arena: &mut Arena<T>,
    ) -> (r: Result<(), NodeError>)
        // @props C01 C02 C03 C05 C08 C12
        requires
            old(arena).wf(),
            old(arena).current(self),
            old(arena).current(new_child),
        ensures
            // @ob C01.links_well_formed@checked_append C01 C12
            links_ok(final(arena).nodes@),
            // @ob C02.acyclic@checked_append C02 C01
            final(arena).acyclic(),
            // @ob C08.payload_tags_consistent@checked_append C08
            data_ok(final(arena).nodes@),
            // @ob C07.free_list_well_formed@checked_append C07
            final(arena).fl_ok(),
            // @ob C05.append_fails_iff_impossible C05 C12
            r is Err <==> insert_impossible(old(arena).nodes@, self, new_child),
            // @ob C05.append_reports_a_reason_that_applies C05
            r is Err ==> match r->Err_0 {
                NodeError::AppendSelf => new_child == self,
                NodeError::Removed => old(arena).at(self).stamp.removed() || old(arena).at(new_child).stamp.removed(),
                NodeError::AppendAncestor => anc(old(arena).nodes@, new_child.idx(), self.idx()),
                _ => false,
            },
            // @ob C05.append_rejection_is_atomic C05 C12
            r is Err ==> final(arena).nodes@ == old(arena).nodes@,
            // @ob C07.NodeId_checked_append_leaves_the_head_of_the_free_list_alone C07
            final(arena).first_free_slot == old(arena).first_free_slot,
            // @ob C07.NodeId_checked_append_leaves_the_tail_of_the_free_list_alone C07
            final(arena).last_free_slot == old(arena).last_free_slot,
            // @ob C08.append_keeps_every_payload_and_stamp C08
            payload_frame(old(arena).nodes@, final(arena).nodes@),
            // @ob C03.append_of_a_node_already_in_place_is_a_successful_no_op C03
            (old(arena).at(new_child).parent == Some(self) && old(arena).at(new_child).next_sibling is None && !insert_impossible(old(arena).nodes@, self, new_child)) ==> r is Ok && final(arena).nodes@ == old(arena).nodes@,
            // @ob C03.append_exact_effect C03
            r is Ok ==> exists|m: Seq<Node<T>>| #[trigger]
                detach_post(old(arena).nodes@, m, new_child.idx()) && insert_post(
                    m,
                    final(arena).nodes@,
                    new_child,
                    Some(self),
                    m[self.idx()].last_child,
                    None,
                ),
    {
        if new_child == self {
            return Err(NodeError::AppendSelf);
        }
        if arena[self].is_removed() || arena[new_child].is_removed() {
            return Err(NodeError::Removed);
        }
        let ghost w = choose|w: Ranks| ranked(arena.nodes@, w);
        if {
            let mut __vx_iter1 = self.ancestors(arena);
            let mut __vx_any2 = false;
            while let Some(ancestor) = __vx_iter1.next()
                invariant_except_break
                    !__vx_any2,
                invariant
                    *__vx_iter1.0.arena == *arena,
                    *arena == *old(arena),
                    links_ok(arena.nodes@),
                    ranked(arena.nodes@, w),
                    // @ob C12.a_node_that_passes_the_removed_test_is_live C12 C05
                    arena.live(new_child),
                    anc_loop_inv(arena.nodes@, w, self.idx(), new_child.idx(), __vx_iter1.0.node, __vx_any2),
                ensures
                    __vx_any2 == in_sub(arena.nodes@, w, new_child.idx(), self.idx()),
                // @ob C02.append_ancestor_walk_terminates C02
                decreases anc_loop_measure(w, __vx_iter1.0.node),
            {
                proof {
                    lemma_anc_loop_step(arena.nodes@, w, self.idx(), new_child, ancestor);
                }
                if new_child == ancestor {
                    __vx_any2 = true;
                    break;
                }
            }
            __vx_any2
        } {
            proof {
                lemma_anc_iff(arena.nodes@, w, new_child.idx(), self.idx());
            }
            return Err(NodeError::AppendAncestor);
        }
        proof {
            lemma_anc_iff(arena.nodes@, w, new_child.idx(), self.idx());
            if new_child.idx() == self.idx() {
                lemma_id_eq(new_child, self);
            }
        }
        new_child.detach(arena);
        let ghost mid = arena.nodes@;
        proof {
            lemma_in_sub_frame(old(arena).nodes@, mid, w, new_child.idx(), self.idx());
            lemma_gap_at_end(mid, self);
        }
        insert_with_neighbors(arena, new_child, Some(self), arena[self].last_child, None)
            .expect("Should never fail: `new_child` is not `self` and they are not removed");
        proof {
            assert(detach_post(old(arena).nodes@, mid, new_child.idx()) && insert_post(
                mid,
                arena.nodes@,
                new_child,
                Some(self),
                mid[self.idx()].last_child,
                None,
            ));
            if old(arena).at(new_child).parent == Some(self) && old(arena).at(new_child).next_sibling is None {
                lemma_links_live(old(arena).nodes@, new_child.idx());
                lemma_reinsert_noop(old(arena).nodes@, mid, arena.nodes@, w, new_child);
            }
        }
        Ok(())
    }
    pub fn append_value<T>(self, value: T, arena: &mut Arena<T>) -> (r: NodeId)
        // @props C01 C03 C05 C07 C08 C12
        requires
            old(arena).wf(),
            old(arena).current(self),
            // append_value panics exactly when self is removed (see the must-panic variant)
            !old(arena).at(self).stamp.removed(),
        ensures
            // @ob C01.links_well_formed@append_value C01 C12
            links_ok(final(arena).nodes@),
            // @ob C02.acyclic@append_value C02 C01
            final(arena).acyclic(),
            // @ob C08.payload_tags_consistent@append_value C08
            data_ok(final(arena).nodes@),
            // @ob C07.free_list_well_formed@append_value C07
            final(arena).fl_ok(),
            // @ob C03.append_value_is_new_node_then_append C03 C07
            exists|m: Arena<T>| #[trigger]
                alloc_post(*old(arena), m, r, value) && insert_post(
                    m.nodes@,
                    final(arena).nodes@,
                    r,
                    Some(self),
                    m.at(self).last_child,
                    None,
                ) && final(arena).first_free_slot == m.first_free_slot && final(arena).last_free_slot == m.last_free_slot,
    {
        assert!(
            !arena[self].is_removed(),
            "Preconditions not met: removed node cannot have children"
        );
        let new_child = arena.new_node(value);
        let ghost mid = *arena;
        proof {
            let w = choose|w: Ranks| ranked(mid.nodes@, w);
            lemma_childless_not_anc(mid.nodes@, w, new_child.idx(), self.idx());
        }
        self.append_new_node_unchecked(new_child, arena);
        new_child
    }
    pub fn append_new_node_unchecked<T>(self, new_child: NodeId, arena: &mut Arena<T>)
        // @props C01 C03
        requires
            old(arena).wf(),
            old(arena).live(new_child),
            old(arena).live(self),
            is_root(old(arena).nodes@, new_child.idx()),
            new_child.idx() != self.idx(),
            exists|w: Ranks| ranked(old(arena).nodes@, w) && !in_sub(old(arena).nodes@, w, new_child.idx(), self.idx()),
        ensures
            // @ob C01.wf@append_new_node_unchecked C01
            final(arena).wf(),
            // @ob C03.append_new_node_unchecked_exact_effect C03
            insert_post(old(arena).nodes@, final(arena).nodes@, new_child, Some(self), old(arena).at(self).last_child, None),
            // @ob C07.NodeId_append_new_node_unchecked_leaves_the_head_of_the_free_list_alone C07
            final(arena).first_free_slot == old(arena).first_free_slot,
            // @ob C07.NodeId_append_new_node_unchecked_leaves_the_tail_of_the_free_list_alone C07
            final(arena).last_free_slot == old(arena).last_free_slot,
    {
        insert_last_unchecked(arena, new_child, self);
    }
    pub fn prepend<T>(self, new_child: NodeId, arena: &mut Arena<T>)
        // @props C01 C03 C05 C12
        requires
            old(arena).wf(),
            old(arena).current(self),
            old(arena).current(new_child),
            // the unchecked form panics exactly when the checked form fails (see the must-panic variant)
            !insert_impossible(old(arena).nodes@, self, new_child),
        ensures
            // @ob C01.links_well_formed@prepend C01 C12
            links_ok(final(arena).nodes@),
            // @ob C02.acyclic@prepend C02 C01
            final(arena).acyclic(),
            // @ob C08.payload_tags_consistent@prepend C08
            data_ok(final(arena).nodes@),
            // @ob C07.free_list_well_formed@prepend C07
            final(arena).fl_ok(),
            // @ob C07.NodeId_prepend_leaves_the_head_of_the_free_list_alone C07
            final(arena).first_free_slot == old(arena).first_free_slot,
            // @ob C07.NodeId_prepend_leaves_the_tail_of_the_free_list_alone C07
            final(arena).last_free_slot == old(arena).last_free_slot,
            // @ob C05.prepend_has_the_effect_of_the_checked_form C05 C03
            exists|m: Seq<Node<T>>| #[trigger]
                detach_post(old(arena).nodes@, m, new_child.idx()) && insert_post(
                    m,
                    final(arena).nodes@,
                    new_child,
                    Some(self),
                    None,
                    m[self.idx()].first_child,
                ),
    {
        self.checked_prepend(new_child, arena)
            .expect("Preconditions not met: invalid argument");
    }
    pub fn checked_prepend<T>(
        self,
        new_child: NodeId,
        arena: &mut Arena<T>,
    ) -> (r: Result<(), NodeError>)
        // @props C01 C02 C03 C05 C08 C12
        requires
            old(arena).wf(),
            old(arena).current(self),
            old(arena).current(new_child),
        ensures
            // @ob C01.links_well_formed@checked_prepend C01 C12
            links_ok(final(arena).nodes@),
            // @ob C02.acyclic@checked_prepend C02 C01
            final(arena).acyclic(),
            // @ob C08.payload_tags_consistent@checked_prepend C08
            data_ok(final(arena).nodes@),
            // @ob C07.free_list_well_formed@checked_prepend C07
            final(arena).fl_ok(),
            // @ob C05.prepend_fails_iff_impossible C05 C12
            r is Err <==> insert_impossible(old(arena).nodes@, self, new_child),
            // @ob C05.prepend_reports_a_reason_that_applies C05
            r is Err ==> match r->Err_0 {
                NodeError::PrependSelf => new_child == self,
                NodeError::Removed => old(arena).at(self).stamp.removed() || old(arena).at(new_child).stamp.removed(),
                NodeError::PrependAncestor => anc(old(arena).nodes@, new_child.idx(), self.idx()),
                _ => false,
            },
            // @ob C05.prepend_rejection_is_atomic C05 C12
            r is Err ==> final(arena).nodes@ == old(arena).nodes@,
            // @ob C07.NodeId_checked_prepend_leaves_the_head_of_the_free_list_alone C07
            final(arena).first_free_slot == old(arena).first_free_slot,
            // @ob C07.NodeId_checked_prepend_leaves_the_tail_of_the_free_list_alone C07
            final(arena).last_free_slot == old(arena).last_free_slot,
            // @ob C08.prepend_keeps_every_payload_and_stamp C08
            payload_frame(old(arena).nodes@, final(arena).nodes@),
            // @ob C03.prepend_of_a_node_already_in_place_is_a_successful_no_op C03
            (old(arena).at(new_child).parent == Some(self) && old(arena).at(new_child).previous_sibling is None && !insert_impossible(old(arena).nodes@, self, new_child)) ==> r is Ok && final(arena).nodes@ == old(arena).nodes@,
            // @ob C03.prepend_exact_effect C03
            r is Ok ==> exists|m: Seq<Node<T>>| #[trigger]
                detach_post(old(arena).nodes@, m, new_child.idx()) && insert_post(
                    m,
                    final(arena).nodes@,
                    new_child,
                    Some(self),
                    None,
                    m[self.idx()].first_child,
                ),
    {
        if new_child == self {
            return Err(NodeError::PrependSelf);
        }
        if arena[self].is_removed() || arena[new_child].is_removed() {
            return Err(NodeError::Removed);
        }
        let ghost w = choose|w: Ranks| ranked(arena.nodes@, w);
        if {
            let mut __vx_iter1 = self.ancestors(arena);
            let mut __vx_any2 = false;
            while let Some(ancestor) = __vx_iter1.next()
                invariant_except_break
                    !__vx_any2,
                invariant
                    *__vx_iter1.0.arena == *arena,
                    *arena == *old(arena),
                    links_ok(arena.nodes@),
                    ranked(arena.nodes@, w),
                    // @ob C12.a_node_that_passes_the_removed_test_is_live C12 C05
                    arena.live(new_child),
                    anc_loop_inv(arena.nodes@, w, self.idx(), new_child.idx(), __vx_iter1.0.node, __vx_any2),
                ensures
                    __vx_any2 == in_sub(arena.nodes@, w, new_child.idx(), self.idx()),
                // @ob C02.prepend_ancestor_walk_terminates C02
                decreases anc_loop_measure(w, __vx_iter1.0.node),
            {
                proof {
                    lemma_anc_loop_step(arena.nodes@, w, self.idx(), new_child, ancestor);
                }
                if new_child == ancestor {
                    __vx_any2 = true;
                    break;
                }
            }
            __vx_any2
        } {
            proof {
                lemma_anc_iff(arena.nodes@, w, new_child.idx(), self.idx());
            }
            return Err(NodeError::PrependAncestor);
        }
        proof {
            lemma_anc_iff(arena.nodes@, w, new_child.idx(), self.idx());
            if new_child.idx() == self.idx() {
                lemma_id_eq(new_child, self);
            }
        }
        new_child.detach(arena);
        let ghost mid = arena.nodes@;
        proof {
            lemma_in_sub_frame(old(arena).nodes@, mid, w, new_child.idx(), self.idx());
            lemma_gap_at_end(mid, self);
        }
        insert_with_neighbors(arena, new_child, Some(self), None, arena[self].first_child)
            .expect("Should never fail: `new_child` is not `self` and they are not removed");
        proof {
            assert(detach_post(old(arena).nodes@, mid, new_child.idx()) && insert_post(
                mid,
                arena.nodes@,
                new_child,
                Some(self),
                None,
                mid[self.idx()].first_child,
            ));
            if old(arena).at(new_child).parent == Some(self) && old(arena).at(new_child).previous_sibling is None {
                lemma_links_live(old(arena).nodes@, new_child.idx());
                lemma_reinsert_noop(old(arena).nodes@, mid, arena.nodes@, w, new_child);
            }
        }
        Ok(())
    }
    pub fn insert_after<T>(self, new_sibling: NodeId, arena: &mut Arena<T>)
        // @props C01 C03 C05 C12
        requires
            old(arena).wf(),
            old(arena).current(self),
            old(arena).current(new_sibling),
            // the unchecked form panics exactly when the checked form fails (see the must-panic variant)
            !insert_impossible(old(arena).nodes@, self, new_sibling),
        ensures
            // @ob C01.links_well_formed@insert_after C01 C12
            links_ok(final(arena).nodes@),
            // @ob C02.acyclic@insert_after C02 C01
            final(arena).acyclic(),
            // @ob C08.payload_tags_consistent@insert_after C08
            data_ok(final(arena).nodes@),
            // @ob C07.free_list_well_formed@insert_after C07
            final(arena).fl_ok(),
            // @ob C07.NodeId_insert_after_leaves_the_head_of_the_free_list_alone C07
            final(arena).first_free_slot == old(arena).first_free_slot,
            // @ob C07.NodeId_insert_after_leaves_the_tail_of_the_free_list_alone C07
            final(arena).last_free_slot == old(arena).last_free_slot,
            // @ob C05.insert_after_has_the_effect_of_the_checked_form C05 C03
            exists|m: Seq<Node<T>>| #[trigger]
                detach_post(old(arena).nodes@, m, new_sibling.idx()) && insert_post(
                    m,
                    final(arena).nodes@,
                    new_sibling,
                    m[self.idx()].parent,
                    Some(self),
                    m[self.idx()].next_sibling,
                ),
    {
        self.checked_insert_after(new_sibling, arena)
            .expect("Preconditions not met: invalid argument");
    }
    pub fn checked_insert_after<T>(
        self,
        new_sibling: NodeId,
        arena: &mut Arena<T>,
    ) -> (r: Result<(), NodeError>)
        // @props C01 C02 C03 C05 C08 C12
        requires
            old(arena).wf(),
            old(arena).current(self),
            old(arena).current(new_sibling),
        ensures
            // @ob C01.links_well_formed@checked_insert_after C01 C12
            links_ok(final(arena).nodes@),
            // @ob C02.acyclic@checked_insert_after C02 C01
            final(arena).acyclic(),
            // @ob C08.payload_tags_consistent@checked_insert_after C08
            data_ok(final(arena).nodes@),
            // @ob C07.free_list_well_formed@checked_insert_after C07
            final(arena).fl_ok(),
            // @ob C05.insert_after_fails_iff_impossible C05 C12
            r is Err <==> insert_impossible(old(arena).nodes@, self, new_sibling),
            // @ob C05.insert_after_reports_a_reason_that_applies C05
            r is Err ==> match r->Err_0 {
                NodeError::InsertAfterSelf => new_sibling == self,
                NodeError::Removed => old(arena).at(self).stamp.removed() || old(arena).at(new_sibling).stamp.removed(),
                NodeError::InsertAfterAncestor => anc(old(arena).nodes@, new_sibling.idx(), self.idx()),
                _ => false,
            },
            // @ob C05.insert_after_rejection_is_atomic C05 C12
            r is Err ==> final(arena).nodes@ == old(arena).nodes@,
            // @ob C07.NodeId_checked_insert_after_leaves_the_head_of_the_free_list_alone C07
            final(arena).first_free_slot == old(arena).first_free_slot,
            // @ob C07.NodeId_checked_insert_after_leaves_the_tail_of_the_free_list_alone C07
            final(arena).last_free_slot == old(arena).last_free_slot,
            // @ob C08.insert_after_keeps_every_payload_and_stamp C08
            payload_frame(old(arena).nodes@, final(arena).nodes@),
            // @ob C03.insert_after_of_a_node_already_in_place_is_a_successful_no_op C03
            (old(arena).at(new_sibling).previous_sibling == Some(self) && !insert_impossible(old(arena).nodes@, self, new_sibling)) ==> r is Ok && final(arena).nodes@ == old(arena).nodes@,
            // @ob C03.insert_after_exact_effect C03
            r is Ok ==> exists|m: Seq<Node<T>>| #[trigger]
                detach_post(old(arena).nodes@, m, new_sibling.idx()) && insert_post(
                    m,
                    final(arena).nodes@,
                    new_sibling,
                    m[self.idx()].parent,
                    Some(self),
                    m[self.idx()].next_sibling,
                ),
    {
        if new_sibling == self {
            return Err(NodeError::InsertAfterSelf);
        }
        if arena[self].is_removed() || arena[new_sibling].is_removed() {
            return Err(NodeError::Removed);
        }
        let ghost w = choose|w: Ranks| ranked(arena.nodes@, w);
        if {
            let mut __vx_iter1 = self.ancestors(arena);
            let mut __vx_any2 = false;
            while let Some(ancestor) = __vx_iter1.next()
                invariant_except_break
                    !__vx_any2,
                invariant
                    *__vx_iter1.0.arena == *arena,
                    *arena == *old(arena),
                    links_ok(arena.nodes@),
                    ranked(arena.nodes@, w),
                    // @ob C12.a_node_that_passes_the_removed_test_is_live C12 C05
                    arena.live(new_sibling),
                    anc_loop_inv(arena.nodes@, w, self.idx(), new_sibling.idx(), __vx_iter1.0.node, __vx_any2),
                ensures
                    __vx_any2 == in_sub(arena.nodes@, w, new_sibling.idx(), self.idx()),
                // @ob C02.insert_after_ancestor_walk_terminates C02
                decreases anc_loop_measure(w, __vx_iter1.0.node),
            {
                proof {
                    lemma_anc_loop_step(arena.nodes@, w, self.idx(), new_sibling, ancestor);
                }
                if new_sibling == ancestor {
                    __vx_any2 = true;
                    break;
                }
            }
            __vx_any2
        } {
            proof {
                lemma_anc_iff(arena.nodes@, w, new_sibling.idx(), self.idx());
            }
            return Err(NodeError::InsertAfterAncestor);
        }
        proof {
            lemma_anc_iff(arena.nodes@, w, new_sibling.idx(), self.idx());
            if new_sibling.idx() == self.idx() {
                lemma_id_eq(new_sibling, self);
            }
        }
        new_sibling.detach(arena);
        let ghost mid = arena.nodes@;
        proof {
            lemma_in_sub_frame(old(arena).nodes@, mid, w, new_sibling.idx(), self.idx());
            lemma_gap_around(mid, w, self, new_sibling.idx());
        }
        let (next_sibling, parent) = {
            let current = &arena[self];
            (current.next_sibling, current.parent)
        };
        insert_with_neighbors(arena, new_sibling, parent, Some(self), next_sibling)
            .expect("Should never fail: `new_sibling` is not `self` and they are not removed");
        proof {
            assert(detach_post(old(arena).nodes@, mid, new_sibling.idx()) && insert_post(
                mid,
                arena.nodes@,
                new_sibling,
                mid[self.idx()].parent,
                Some(self),
                mid[self.idx()].next_sibling,
            ));
            if old(arena).at(new_sibling).previous_sibling == Some(self) {
                lemma_links_live(old(arena).nodes@, new_sibling.idx());
                lemma_sibling_facts(old(arena).nodes@, new_sibling.idx());
                lemma_reinsert_noop(old(arena).nodes@, mid, arena.nodes@, w, new_sibling);
            }
        }
        Ok(())
    }
    pub fn insert_before<T>(self, new_sibling: NodeId, arena: &mut Arena<T>)
        // @props C01 C03 C05 C12
        requires
            old(arena).wf(),
            old(arena).current(self),
            old(arena).current(new_sibling),
            // the unchecked form panics exactly when the checked form fails (see the must-panic variant)
            !insert_impossible(old(arena).nodes@, self, new_sibling),
        ensures
            // @ob C01.links_well_formed@insert_before C01 C12
            links_ok(final(arena).nodes@),
            // @ob C02.acyclic@insert_before C02 C01
            final(arena).acyclic(),
            // @ob C08.payload_tags_consistent@insert_before C08
            data_ok(final(arena).nodes@),
            // @ob C07.free_list_well_formed@insert_before C07
            final(arena).fl_ok(),
            // @ob C07.NodeId_insert_before_leaves_the_head_of_the_free_list_alone C07
            final(arena).first_free_slot == old(arena).first_free_slot,
            // @ob C07.NodeId_insert_before_leaves_the_tail_of_the_free_list_alone C07
            final(arena).last_free_slot == old(arena).last_free_slot,
            // @ob C05.insert_before_has_the_effect_of_the_checked_form C05 C03
            exists|m: Seq<Node<T>>| #[trigger]
                detach_post(old(arena).nodes@, m, new_sibling.idx()) && insert_post(
                    m,
                    final(arena).nodes@,
                    new_sibling,
                    m[self.idx()].parent,
                    m[self.idx()].previous_sibling,
                    Some(self),
                ),
    {
        self.checked_insert_before(new_sibling, arena)
            .expect("Preconditions not met: invalid argument");
    }
    pub fn checked_insert_before<T>(
        self,
        new_sibling: NodeId,
        arena: &mut Arena<T>,
    ) -> (r: Result<(), NodeError>)
        // @props C01 C02 C03 C05 C08 C12
        requires
            old(arena).wf(),
            old(arena).current(self),
            old(arena).current(new_sibling),
        ensures
            // @ob C01.links_well_formed@checked_insert_before C01 C12
            links_ok(final(arena).nodes@),
            // @ob C02.acyclic@checked_insert_before C02 C01
            final(arena).acyclic(),
            // @ob C08.payload_tags_consistent@checked_insert_before C08
            data_ok(final(arena).nodes@),
            // @ob C07.free_list_well_formed@checked_insert_before C07
            final(arena).fl_ok(),
            // @ob C05.insert_before_fails_iff_impossible C05 C12
            r is Err <==> insert_impossible(old(arena).nodes@, self, new_sibling),
            // @ob C05.insert_before_reports_a_reason_that_applies C05
            r is Err ==> match r->Err_0 {
                NodeError::InsertBeforeSelf => new_sibling == self,
                NodeError::Removed => old(arena).at(self).stamp.removed() || old(arena).at(new_sibling).stamp.removed(),
                NodeError::InsertBeforeAncestor => anc(old(arena).nodes@, new_sibling.idx(), self.idx()),
                _ => false,
            },
            // @ob C05.insert_before_rejection_is_atomic C05 C12
            r is Err ==> final(arena).nodes@ == old(arena).nodes@,
            // @ob C07.NodeId_checked_insert_before_leaves_the_head_of_the_free_list_alone C07
            final(arena).first_free_slot == old(arena).first_free_slot,
            // @ob C07.NodeId_checked_insert_before_leaves_the_tail_of_the_free_list_alone C07
            final(arena).last_free_slot == old(arena).last_free_slot,
            // @ob C08.insert_before_keeps_every_payload_and_stamp C08
            payload_frame(old(arena).nodes@, final(arena).nodes@),
            // @ob C03.insert_before_of_a_node_already_in_place_is_a_successful_no_op C03
            (old(arena).at(new_sibling).next_sibling == Some(self) && !insert_impossible(old(arena).nodes@, self, new_sibling)) ==> r is Ok && final(arena).nodes@ == old(arena).nodes@,
            // @ob C03.insert_before_exact_effect C03
            r is Ok ==> exists|m: Seq<Node<T>>| #[trigger]
                detach_post(old(arena).nodes@, m, new_sibling.idx()) && insert_post(
                    m,
                    final(arena).nodes@,
                    new_sibling,
                    m[self.idx()].parent,
                    m[self.idx()].previous_sibling,
                    Some(self),
                ),
    {
        if new_sibling == self {
            return Err(NodeError::InsertBeforeSelf);
        }
        if arena[self].is_removed() || arena[new_sibling].is_removed() {
            return Err(NodeError::Removed);
        }
        let ghost w = choose|w: Ranks| ranked(arena.nodes@, w);
        if {
            let mut __vx_iter1 = self.ancestors(arena);
            let mut __vx_any2 = false;
            while let Some(ancestor) = __vx_iter1.next()
                invariant_except_break
                    !__vx_any2,
                invariant
                    *__vx_iter1.0.arena == *arena,
                    *arena == *old(arena),
                    links_ok(arena.nodes@),
                    ranked(arena.nodes@, w),
                    // @ob C12.a_node_that_passes_the_removed_test_is_live C12 C05
                    arena.live(new_sibling),
                    anc_loop_inv(arena.nodes@, w, self.idx(), new_sibling.idx(), __vx_iter1.0.node, __vx_any2),
                ensures
                    __vx_any2 == in_sub(arena.nodes@, w, new_sibling.idx(), self.idx()),
                // @ob C02.insert_before_ancestor_walk_terminates C02
                decreases anc_loop_measure(w, __vx_iter1.0.node),
            {
                proof {
                    lemma_anc_loop_step(arena.nodes@, w, self.idx(), new_sibling, ancestor);
                }
                if new_sibling == ancestor {
                    __vx_any2 = true;
                    break;
                }
            }
            __vx_any2
        } {
            proof {
                lemma_anc_iff(arena.nodes@, w, new_sibling.idx(), self.idx());
            }
            return Err(NodeError::InsertBeforeAncestor);
        }
        proof {
            lemma_anc_iff(arena.nodes@, w, new_sibling.idx(), self.idx());
            if new_sibling.idx() == self.idx() {
                lemma_id_eq(new_sibling, self);
            }
        }
        new_sibling.detach(arena);
        let ghost mid = arena.nodes@;
        proof {
            lemma_in_sub_frame(old(arena).nodes@, mid, w, new_sibling.idx(), self.idx());
            lemma_gap_around(mid, w, self, new_sibling.idx());
        }
        let (previous_sibling, parent) = {
            let current = &arena[self];
            (current.previous_sibling, current.parent)
        };
        insert_with_neighbors(arena, new_sibling, parent, previous_sibling, Some(self))
            .expect("Should never fail: `new_sibling` is not `self` and they are not removed");
        proof {
            assert(detach_post(old(arena).nodes@, mid, new_sibling.idx()) && insert_post(
                mid,
                arena.nodes@,
                new_sibling,
                mid[self.idx()].parent,
                mid[self.idx()].previous_sibling,
                Some(self),
            ));
            if old(arena).at(new_sibling).next_sibling == Some(self) {
                lemma_links_live(old(arena).nodes@, new_sibling.idx());
                lemma_sibling_facts(old(arena).nodes@, new_sibling.idx());
                lemma_reinsert_noop(old(arena).nodes@, mid, arena.nodes@, w, new_sibling);
            }
        }
        Ok(())
    }
    pub fn remove<T>(self, arena: &mut Arena<T>)
        // @props C01 C02 C04 C06 C07 C08 C12
        requires
            old(arena).wf(),
            old(arena).live(self),
        ensures
            // @ob C01.links_well_formed@remove C01 C12
            links_ok(final(arena).nodes@),
            // @ob C02.acyclic@remove C02 C01
            final(arena).acyclic(),
            // @ob C08.payload_tags_consistent@remove C08
            data_ok(final(arena).nodes@),
            // @ob C07.free_list_well_formed@remove C07
            final(arena).fl_ok(),
            // @ob C04.remove_splices_children_into_place C04
            remove_post(old(arena).nodes@, final(arena).nodes@, self.idx()),
            // @ob C06.remove_marks_the_id_removed C06 C12
            final(arena).at(self).stamp.0 == -old(arena).at(self).stamp.0 - 1,
            // @ob C08.remove_keeps_every_other_payload C08 C04
            forall|i: int|
                0 <= i < old(arena).nodes@.len() && i != self.idx() ==> (#[trigger] final(arena).nodes@[i]).stamp == old(
                    arena,
                ).nodes@[i].stamp && (!old(arena).nodes@[i].stamp.removed() ==> final(arena).nodes@[i].data == old(arena).nodes@[i].data),
            // @ob C07.remove_makes_the_slot_available_exactly_once C07
            forall|fl: Seq<int>| #[trigger]
                free_list(old(arena).nodes@, old(arena).first_free_slot, old(arena).last_free_slot, fl) ==> free_list(
                    final(arena).nodes@,
                    final(arena).first_free_slot,
                    final(arena).last_free_slot,
                    if final(arena).at(self).stamp.can_reuse() {
                        fl.push(self.idx())
                    } else {
                        fl
                    },
                ),
    {
        proof {
            lemma_remove_entry(arena.nodes@, self);
        }
        debug_assert_triangle_nodes!(
            arena,
            arena[self].parent,
            arena[self].previous_sibling,
            Some(self)
        );
        debug_assert_triangle_nodes!(
            arena,
            arena[self].parent,
            Some(self),
            arena[self].next_sibling
        );
        debug_assert_triangle_nodes!(arena, Some(self), None, arena[self].first_child);
        debug_assert_triangle_nodes!(arena, Some(self), arena[self].last_child, None);
        let (parent, previous_sibling, next_sibling, first_child, last_child) = {
            let node = &arena[self];
            (
                node.parent,
                node.previous_sibling,
                node.next_sibling,
                node.first_child,
                node.last_child,
            )
        };
        assert_eq!(first_child.is_some(), last_child.is_some());
        let ghost w = choose|w: Ranks| ranked(arena.nodes@, w);
        self.detach(arena);
        let ghost a1 = *arena;
        let ghost s1 = arena.nodes@;
        proof {
            lemma_gap_after_detach(old(arena).nodes@, s1, w, self.idx());
        }
        if let (Some(first_child), Some(last_child)) = (first_child, last_child) {
            proof {
                assert(splice_ctx(s1, w, self.idx(), first_child, last_child, parent, previous_sibling, next_sibling));
                lemma_splice_pre_s(s1, w, self.idx(), first_child, last_child, parent, previous_sibling, next_sibling);
                lemma_links_live(s1, self.idx());
            }
            let range = SiblingsRange::new(first_child, last_child).detach_from_siblings(arena);
            let ghost s2 = arena.nodes@;
            proof {
                lemma_splice_pre(s1, s2, w, self.idx(), first_child, last_child, parent, previous_sibling, next_sibling);
            }
            range
                .transplant(arena, parent, previous_sibling, next_sibling)
                .expect("Should never fail: neighbors and children must be consistent");
            proof {
                let c = chain_from(s1, w, first_child.idx());
                assert(is_chain(s2, first_child.idx(), c));
                lemma_compose_splice(s1, s2, arena.nodes@, w, self.idx(), first_child, last_child, parent, previous_sibling, next_sibling);
                lemma_splice_links(s1, arena.nodes@, w, self.idx(), first_child, last_child, parent, previous_sibling, next_sibling);
                lemma_splice_ranks(s1, arena.nodes@, w, self.idx(), first_child, last_child, parent, previous_sibling, next_sibling);
                lemma_relink_wf(a1, *arena);
            }
        }
        let ghost a3 = *arena;
        proof {
            lemma_payload_frame_wf(old(arena).nodes@, a3.nodes@, old(arena).first_free_slot, old(arena).last_free_slot);
        }
        arena.free_node(self);
        proof {
            lemma_remove_compose(old(arena).nodes@, s1, a3.nodes@, arena.nodes@, w, self);
        }
        debug_assert!(arena[self].is_detached());
    }
    pub fn remove_subtree<T>(self, arena: &mut Arena<T>)
        // @props C01 C02 C04 C06 C07 C08 C12
        requires
            old(arena).wf(),
            old(arena).live(self),
        ensures
            // @ob C01.links_well_formed@remove_subtree C01 C12
            links_ok(final(arena).nodes@),
            // @ob C02.acyclic@remove_subtree C02 C01
            final(arena).acyclic(),
            // @ob C08.payload_tags_consistent@remove_subtree C08
            data_ok(final(arena).nodes@),
            // @ob C07.free_list_well_formed@remove_subtree C07
            final(arena).fl_ok(),
            // @ob C04.remove_subtree_keeps_the_number_of_slots C04
            final(arena).nodes@.len() == old(arena).nodes@.len(),
            // @ob C12.remove_subtree_removes_the_node C12 C04
            final(arena).at(self).stamp.removed(),
            // @ob C04.remove_subtree_deletes_exactly_the_subtree C04 C08
            exists|m: Seq<Node<T>>| #[trigger]
                detach_post(old(arena).nodes@, m, self.idx()) && subtree_removed_post(m, final(arena).nodes@, self.idx()),
    {
        self.detach(arena);
        let ghost w = choose|w: Ranks| ranked(arena.nodes@, w);
        let ghost s1 = arena.nodes@;
        proof {
            assert(in_sub(s1, w, self.idx(), self.idx()));
        }
        let mut cursor = Some(self);
        while let Some(id) = cursor
            invariant
                arena.wf(),
                ranked(arena.nodes@, w),
                arena.nodes@.len() == s1.len(),
                self.idx() < s1.len(),
                cursor is Some ==> tgt_ok(arena.nodes@, cursor) && in_sub(arena.nodes@, w, self.idx(), cursor->0.idx()),
                cursor is Some ==> arena.live(self) && arena.at(self).parent is None,
                cursor is None ==> arena.at(self).stamp.removed(),
                links_ok(s1),
                ranked(s1, w),
                !s1[self.idx()].stamp.removed(),
                rs_inv(s1, arena.nodes@, w, self.idx(), cursor),
            ensures
                cursor is None,
            // @ob C02.remove_subtree_terminates C02
            decreases live_count(arena.nodes@), (if cursor is Some { w.bound - (w.depth)(cursor->0.idx()) } else { 0 }),
        {
            let ghost s_in = arena.nodes@;
            proof {
                lemma_links_live(s_in, id.idx());
                assert(ranked_at(s_in, w, id.idx()));
                lemma_id_eq_from_live(s_in, id);
            }
            let node = &arena[id];
            cursor = if let Some(first_child) = node.first_child {
                proof {
                    lemma_first_child_in_sub(s_in, w, self.idx(), id);
                    lemma_rs_descend(s1, s_in, w, self.idx(), id);
                }
                Some(first_child)
            } else {
                let parent = node.parent;
                id.detach(arena);
                let ghost s_mid = arena.nodes@;
                proof {
                    lemma_links_live(s_in, id.idx());
                    lemma_parent_has_both_none(s_in, id.idx());
                }
                arena.free_node(id);
                proof {
                    lemma_live_count_same(s_in, s_mid);
                    lemma_live_count_free(s_mid, arena.nodes@, id.idx());
                    lemma_leaf_removed_frame(s_in, s_mid, arena.nodes@, w, self.idx(), id);
                    lemma_rs_leaf(s1, s_in, s_mid, arena.nodes@, w, self.idx(), id);
                }
                parent
            };
        }
        proof {
            lemma_rs_done(s1, arena.nodes@, w, self.idx());
            assert(detach_post(old(arena).nodes@, s1, self.idx()) && subtree_removed_post(s1, arena.nodes@, self.idx()));
        }
    }
}
#[derive(PartialEq, Eq, Clone, Debug)]
pub enum NodeData<T> {
    Data(T),
    NextFree(Option<usize>),
}
#[derive(PartialEq, Eq, Clone, Debug)]
pub struct Node<T> {
    pub parent: Option<NodeId>,
    pub previous_sibling: Option<NodeId>,
    pub next_sibling: Option<NodeId>,
    pub first_child: Option<NodeId>,
    pub last_child: Option<NodeId>,
    pub stamp: NodeStamp,
    pub data: NodeData<T>,
}
impl<T> Node<T> {
    pub fn get(&self) -> (r: &T)
        // @props C08 C05
        requires
            self.data is Data,
        ensures
            // @ob C08.get_returns_stored_payload C08
            self.data == NodeData::Data(*r),
    {
        if let NodeData::Data(ref data) = self.data {
            data
        } else {
            unreachable!("Try to access a freed node")
        }
    }
    pub fn get_mut(&mut self) -> (r: &mut T)
        // @props C08 C05
        requires
            old(self).data is Data,
        ensures
            // @ob C08.get_mut_addresses_payload C08
            old(self).data == NodeData::Data(*r),
            // @ob C08.get_mut_writes_only_payload C08 C01
            *final(self) == (Node { data: NodeData::Data(*final(r)), ..*old(self) }),
    {
        if let NodeData::Data(ref mut data) = self.data {
            data
        } else {
            unreachable!("Try to access a freed node")
        }
    }
    pub fn new(data: T) -> (r: Self)
        // @props C07 C12
        ensures
            // @ob C12.new_node_has_no_links C12
            no_links(r),
            // @ob C06.Node_new_starts_at_generation_zero C06
            r.stamp.0 == 0,
            // @ob C08.Node_new_stores_the_payload C08
            r.data == NodeData::Data(data),
    {
        Self {
            parent: None,
            previous_sibling: None,
            next_sibling: None,
            first_child: None,
            last_child: None,
            stamp: NodeStamp::default(),
            data: NodeData::Data(data),
        }
    }
    pub fn reuse(&mut self, data: T)
        // @props C06 C07 C12
        requires
            !(old(self).data is Data),
            old(self).stamp.can_reuse(),
        ensures
            // @ob C12.recycled_node_has_no_links C12
            no_links(*final(self)),
            // @ob C06.recycled_stamp_is_fresh C06
            final(self).stamp.0 == -old(self).stamp.0,
            // @ob C06.Node_reuse_advances_the_generation C06
            !final(self).stamp.removed(),
            // @ob C06.Node_reuse_advances_the_generation C06
            final(self).stamp.hw() == old(self).stamp.hw() + 1,
            // @ob C08.Node_reuse_stores_the_payload C08
            final(self).data == NodeData::Data(data),
    {
        debug_assert!(matches!(self.data, NodeData::NextFree(_)));
        debug_assert!(self.stamp.is_removed());
        self.stamp.reuse();
        self.parent = None;
        self.previous_sibling = None;
        self.next_sibling = None;
        self.first_child = None;
        self.last_child = None;
        self.data = NodeData::Data(data);
    }
    pub fn parent(&self) -> (r: Option<NodeId>)
        // @props C11
        ensures
            // @ob C01.Node_parent_reports_the_stored_link C01
            r == self.parent,
    {
        self.parent
    }
    pub fn first_child(&self) -> (r: Option<NodeId>)
        // @props C11
        ensures
            // @ob C01.Node_first_child_reports_the_stored_link C01
            r == self.first_child,
    {
        self.first_child
    }
    pub fn last_child(&self) -> (r: Option<NodeId>)
        // @props C11
        ensures
            // @ob C01.Node_last_child_reports_the_stored_link C01
            r == self.last_child,
    {
        self.last_child
    }
    pub fn previous_sibling(&self) -> (r: Option<NodeId>)
        // @props C11
        ensures
            // @ob C01.Node_previous_sibling_reports_the_stored_link C01
            r == self.previous_sibling,
    {
        self.previous_sibling
    }
    pub fn next_sibling(&self) -> (r: Option<NodeId>)
        // @props C11
        ensures
            // @ob C01.Node_next_sibling_reports_the_stored_link C01
            r == self.next_sibling,
    {
        self.next_sibling
    }
    pub fn is_removed(&self) -> (r: bool)
        // @props C11 C12
        ensures
            // @ob C12.Node_is_removed_reads_the_stamp C12 C06
            r == self.stamp.removed(),
    {
        self.stamp.is_removed()
    }
    pub fn is_detached(&self) -> (r: bool)
        ensures
            // @ob C03.Node_is_detached_means_no_parent_and_no_siblings C03
            r == (self.parent is None && self.previous_sibling is None && self.next_sibling is None),
    {
        self.parent.is_none() && self.previous_sibling.is_none() && self.next_sibling.is_none()
    }
}
#[derive(PartialEq, Eq, Clone, Debug)]
pub struct Arena<T> {
    pub nodes: Vec<Node<T>>,
    pub first_free_slot: Option<usize>,
    pub last_free_slot: Option<usize>,
}
impl<T> Arena<T> {
    pub fn new() -> (r: Arena<T>)
        // @props C13 C01 C07
        ensures
            // @ob C13.new_is_empty C13
            r.nodes@.len() == 0 && r.first_free_slot is None && r.last_free_slot is None,
            // @ob C01.links_well_formed@new C01 C12
            links_ok(r.nodes@),
            // @ob C02.acyclic@new C02 C01
            r.acyclic(),
            // @ob C08.payload_tags_consistent@new C08
            data_ok(r.nodes@),
            // @ob C07.free_list_well_formed@new C07
            r.fl_ok(),
    {
        proof {
            lemma_empty_acyclic::<T>();
            lemma_empty_wf::<T>();
        }
        Self::default()
    }
    pub fn with_capacity(n: usize) -> (r: Self)
        // @props C13 C01 C07
        ensures
            // @ob C13.with_capacity_is_empty C13
            r.nodes@.len() == 0 && r.first_free_slot is None && r.last_free_slot is None,
            // @ob C01.links_well_formed@with_capacity C01 C12
            links_ok(r.nodes@),
            // @ob C02.acyclic@with_capacity C02 C01
            r.acyclic(),
            // @ob C08.payload_tags_consistent@with_capacity C08
            data_ok(r.nodes@),
            // @ob C07.free_list_well_formed@with_capacity C07
            r.fl_ok(),
    {
        proof {
            lemma_empty_acyclic::<T>();
            lemma_empty_wf::<T>();
        }
        Self {
            nodes: Vec::with_capacity(n),
            first_free_slot: None,
            last_free_slot: None,
        }
    }
    pub fn capacity(&self) -> (r: usize)
        // @props C13
        ensures
            // @ob C13.capacity_covers_the_stored_nodes C13
            r >= self.nodes@.len(),
    {
        self.nodes.capacity()
    }
    pub fn reserve(&mut self, additional: usize)
        // @props C13 C01
        ensures
            // @ob C13.reserve_changes_nothing_observable C13 C08
            final(self).nodes@ == old(self).nodes@ && final(self).first_free_slot == old(self).first_free_slot
                && final(self).last_free_slot == old(self).last_free_slot,
    {
        self.nodes.reserve(additional);
    }
    pub fn get_node_id(&self, node: &Node<T>) -> (r: Option<NodeId>)
        // @props C11
        ensures
            // @ob C11.get_node_id_names_the_slot_holding_the_node C11
            r is Some ==> r->0.idx() < self.nodes@.len() && self.nodes@[r->0.idx()] == *node,
            // @ob C11.get_node_id_carries_the_slot_stamp C11
            r is Some ==> r->0.stamp == node.stamp,
    {
        let node_index = match vx_slice_position(&self.nodes, node) {
            Some(i) => i,
            None => return None,
        };
        proof {
            axiom_vec_node_len(&self.nodes);
        }
        let node_id = NonZeroUsize::new(node_index.wrapping_add(1))?;
        Some(NodeId::from_non_zero_usize(
            node_id,
            self.nodes[node_index].stamp,
        ))
    }
    pub fn get_node_id_at(&self, index: NonZeroUsize) -> (r: Option<NodeId>)
        // @props C11
        ensures
            // @ob C11.get_node_id_at_some_iff_live_position C11
            r is Some <==> (index@ - 1 < self.nodes@.len() && !self.nodes@[index@ - 1].stamp.removed()),
            // @ob C11.get_node_id_at_returns_the_id C11
            r is Some ==> r->0.index1 == index && r->0.stamp == self.nodes@[index@ - 1].stamp && self.live(r->0),
    {
        let index0 = index.get() - 1;
        match match self.nodes.get(index0) {
            Some(__vx_v1) => {
                let n = &__vx_v1;
                if !n.is_removed() {
                    Some(__vx_v1)
                } else {
                    None
                }
            }
            None => None,
        } {
            Some(node) => Some(NodeId::from_non_zero_usize(index, node.stamp)),
            None => None,
        }
    }
    pub fn new_node(&mut self, data: T) -> (r: NodeId)
        // @props C07 C06 C08 C01 C12 C13
        requires
            old(self).wf(),
        ensures
            // @ob C01.links_well_formed@new_node C01 C12
            links_ok(final(self).nodes@),
            // @ob C02.acyclic@new_node C02 C01
            final(self).acyclic(),
            // @ob C08.payload_tags_consistent@new_node C08
            data_ok(final(self).nodes@),
            // @ob C07.free_list_well_formed@new_node C07
            final(self).fl_ok(),
            // @ob C07.new_node_returns_live_id C07 C08
            final(self).live(r) && final(self).at(r).data == NodeData::Data(data),
            // @ob C12.new_node_starts_unlinked C12
            no_links(final(self).at(r)),
            // @ob C07.new_node_slot_held_no_live_node C07
            r.idx() < old(self).nodes@.len() ==> old(self).nodes@[r.idx()].stamp.can_reuse(),
            // @ob C06.new_node_id_is_fresh C06
            r.idx() < old(self).nodes@.len() ==> r.stamp.0 as int == old(self).nodes@[r.idx()].stamp.hw() + 1,
            // @ob C06.new_node_fresh_slot_starts_at_generation_zero C06
            r.idx() >= old(self).nodes@.len() ==> r.stamp.0 == 0,
            // @ob C07.new_node_recycles_before_growing C07
            forall|fl: Seq<int>| #[trigger]
                free_list(old(self).nodes@, old(self).first_free_slot, old(self).last_free_slot, fl) ==> (if fl.len() > 0 {
                    r.idx() == fl[0] && final(self).nodes@.len() == old(self).nodes@.len() && free_list(
                        final(self).nodes@,
                        final(self).first_free_slot,
                        final(self).last_free_slot,
                        fl.drop_first(),
                    )
                } else {
                    r.idx() == old(self).nodes@.len() && final(self).nodes@.len() == old(self).nodes@.len() + 1
                        && free_list(final(self).nodes@, final(self).first_free_slot, final(self).last_free_slot, fl)
                }),
            // @ob C08.new_node_leaves_every_other_slot_untouched C08 C07
            forall|i: int| 0 <= i < old(self).nodes@.len() && i != r.idx() ==> final(self).nodes@[i] == old(self).nodes@[i],
            // @ob C07.new_node_never_shrinks_the_arena C07
            final(self).nodes@.len() >= old(self).nodes@.len(),
            // @ob C07.new_node_exact_effect C07 C08
            alloc_post(*old(self), *final(self), r, data),
    {
        proof {
            axiom_vec_node_len(&self.nodes);
            // established once, for whatever state the function ends in (triggered by the postconditions)
            lemma_fl_ends_all(self.nodes@, self.first_free_slot, self.last_free_slot);
            lemma_alloc_all(self.nodes@, self.first_free_slot, self.last_free_slot);
        }
        let (index, stamp) = if let Some(index) = self.pop_front_free_node() {
            let node = &mut self.nodes[index];
            node.reuse(data);
            (index, node.stamp)
        } else {
            let index = self.nodes.len();
            let node = Node::new(data);
            let stamp = node.stamp;
            self.nodes.push(node);
            (index, stamp)
        };
        let next_index1 =
            NonZeroUsize::new(index.wrapping_add(1)).expect("Too many nodes in the arena");
        NodeId::from_non_zero_usize(next_index1, stamp)
    }
    pub fn count(&self) -> (r: usize)
        // @props C11 C07
        ensures
            // @ob C11.count_is_number_of_slots C11
            r == self.nodes@.len(),
    {
        self.nodes.len()
    }
    pub fn is_empty(&self) -> (r: bool)
        // @props C11
        ensures
            // @ob C11.is_empty_iff_count_zero C11
            r == (self.nodes@.len() == 0),
    {
        self.count() == 0
    }
    pub fn get(&self, id: NodeId) -> (r: Option<&Node<T>>)
        // @props C11 C08
        ensures
            // @ob C11.get_none_iff_out_of_range C11
            r is Some <==> self.has(id),
            // @ob C11.get_addresses_the_slot_of_the_id C11 C08
            r is Some ==> *r->0 == self.at(id),
    {
        self.nodes.get(id.index0())
    }
    pub fn get_mut(&mut self, id: NodeId) -> (r: Option<&mut Node<T>>)
        // @props C11 C08
        ensures
            // @ob C11.get_mut_none_iff_out_of_range C11
            r is Some <==> old(self).has(id),
            // @ob C11.get_mut_addresses_the_slot_of_the_id C11 C08
            r is Some ==> *r->0 == old(self).at(id),
            // @ob C08.get_mut_writes_only_the_addressed_slot C08 C01
            r is Some ==> final(self).nodes@ == old(self).nodes@.update(id.idx(), *final(r->0)),
            // @ob C08.Arena_get_mut_frame C08
            r is None ==> final(self).nodes@ == old(self).nodes@,
            // @ob C07.Arena_get_mut_leaves_the_head_of_the_free_list_alone C07
            final(self).first_free_slot == old(self).first_free_slot,
            // @ob C07.Arena_get_mut_leaves_the_tail_of_the_free_list_alone C07
            final(self).last_free_slot == old(self).last_free_slot,
    {
        self.nodes.get_mut(id.index0())
    }
    pub fn iter(&self) -> (r: slice::Iter<Node<T>>)
        // @props C11
        // (std's slice iterator has no specification view in vstd: the body is checked, the result is std's)
    {
        self.nodes.iter()
    }
    pub fn iter_mut(&mut self) -> (r: slice::IterMut<Node<T>>)
        // @props C11
        // (std's slice iterator has no specification view in vstd: the body is checked, the result is std's)
    {
        self.nodes.iter_mut()
    }
    pub fn clear(&mut self)
        // @props C13 C01
        ensures
            // @ob C13.clear_equals_new C13
            final(self).nodes@.len() == 0 && final(self).first_free_slot is None && final(self).last_free_slot is None,
            // @ob C01.links_well_formed@clear C01 C12
            links_ok(final(self).nodes@),
            // @ob C02.acyclic@clear C02 C01
            final(self).acyclic(),
            // @ob C08.payload_tags_consistent@clear C08
            data_ok(final(self).nodes@),
            // @ob C07.free_list_well_formed@clear C07
            final(self).fl_ok(),
    {
        self.nodes.clear();
        self.first_free_slot = None;
        self.last_free_slot = None;
        proof {
            lemma_empty_acyclic::<T>();
            lemma_empty_wf::<T>();
        }
    }
    pub fn as_slice(&self) -> (r: &[Node<T>])
        // @props C11
        ensures
            // @ob C11.as_slice_is_the_slot_sequence C11
            r@ == self.nodes@,
    {
        self.nodes.as_slice()
    }
    pub fn free_node(&mut self, id: NodeId)
        // @props C07 C06 C08 C12 C04
        requires
            old(self).wf(),
            old(self).has(id),
            !old(self).at(id).stamp.removed(),
            // @ob C12.only_a_node_that_is_out_of_every_tree_is_freed C12 C04 C01
            no_links(old(self).at(id)),
        ensures
            // @ob C04.free_node_changes_no_link_and_no_other_generation C04
            free_frame(old(self).nodes@, final(self).nodes@, id.idx()),
            // @ob C01.links_well_formed@free_node C01 C12
            links_ok(final(self).nodes@),
            // @ob C02.acyclic@free_node C02 C01
            final(self).acyclic(),
            // @ob C08.payload_tags_consistent@free_node C08
            data_ok(final(self).nodes@),
            // @ob C07.free_list_well_formed@free_node C07
            final(self).fl_ok(),
            // @ob C02.free_node_keeps_rank_witness C02
            forall|w: Ranks| ranked(old(self).nodes@, w) ==> ranked(final(self).nodes@, w),
            // @ob C07.free_node_keeps_the_number_of_slots C07
            final(self).nodes@.len() == old(self).nodes@.len(),
            // @ob C06.free_node_marks_removed C06 C12
            final(self).at(id).stamp.0 == -old(self).at(id).stamp.0 - 1,
            // @ob C08.free_node_touches_no_live_payload_but_the_freed_one C08 C04
            forall|i: int|
                0 <= i < old(self).nodes@.len() && i != id.idx() && !old(self).nodes@[i].stamp.removed()
                    ==> (#[trigger] final(self).nodes@[i]).data == old(self).nodes@[i].data,
            // @ob C07.free_node_writes_at_most_one_free_list_link C07
            forall|i: int|
                0 <= i < old(self).nodes@.len() ==> {
                    let o = old(self).nodes@[i];
                    let n = #[trigger] final(self).nodes@[i];
                    &&& (i != id.idx() && n.data != o.data) ==> (old(self).last_free_slot == Some(i as usize)
                        && final(self).at(id).stamp.can_reuse())
                    &&& i != id.idx() ==> (n.data is Data) == (o.data is Data)
                },
            // @ob C08.free_node_drops_the_payload_of_the_freed_node C08
            !(final(self).at(id).data is Data),
            // @ob C07.free_node_makes_slot_available_exactly_once C07
            forall|fl: Seq<int>| #[trigger]
                free_list(old(self).nodes@, old(self).first_free_slot, old(self).last_free_slot, fl) ==> free_list(
                    final(self).nodes@,
                    final(self).first_free_slot,
                    final(self).last_free_slot,
                    freed_fl(final(self).nodes@, id.idx(), fl),
                ),
    {
        proof {
            axiom_vec_node_len(&self.nodes);
            // every invariant is established here, once, for whatever state the function ends in: the
            // facts are quantified over the final state and triggered by the postconditions themselves,
            // so they hold on every exit path and no hint depends on the shape of the code below
            lemma_free_links_all(self.nodes@, id.idx());
            lemma_freed_all(self.nodes@, self.first_free_slot, self.last_free_slot, id.idx());
            let fl0 = choose|fl: Seq<int>| free_list(self.nodes@, self.first_free_slot, self.last_free_slot, fl);
            lemma_fl_ends(self.nodes@, self.first_free_slot, self.last_free_slot, fl0);
        }
        let node = &mut self[id];
        node.data = NodeData::NextFree(None);
        node.stamp.as_removed();
        let stamp = node.stamp;
        if stamp.reuseable() {
            if let Some(index) = self.last_free_slot {
                let new_last = id.index0();
                self.nodes[index].data = NodeData::NextFree(Some(new_last));
                self.last_free_slot = Some(new_last);
            } else {
                debug_assert!(self.first_free_slot.is_none());
                debug_assert!(self.last_free_slot.is_none());
                self.first_free_slot = Some(id.index0());
                self.last_free_slot = Some(id.index0());
            }
        }
    }
    pub fn pop_front_free_node(&mut self) -> (first: Option<usize>)
        // @props C07
        requires
            old(self).fl_ok(),
        ensures
            // @ob C07.pop_front_touches_no_slot C07 C08
            final(self).nodes@ == old(self).nodes@,
            // @ob C07.pop_front_unlinks_exactly_the_head_slot C07
            match first {
                Some(i) => {
                    &&& old(self).first_free_slot == Some(i) && i < old(self).nodes@.len()
                    &&& old(self).nodes@[i as int].data == NodeData::<T>::NextFree(final(self).first_free_slot)
                    &&& final(self).first_free_slot is None ==> final(self).last_free_slot is None
                    &&& final(self).first_free_slot is Some ==> final(self).last_free_slot == old(self).last_free_slot
                },
                None => {
                    &&& old(self).first_free_slot is None
                    &&& final(self).first_free_slot == old(self).first_free_slot
                    &&& final(self).last_free_slot == old(self).last_free_slot
                },
            },
            // @ob C07.pop_front_hands_out_the_oldest_free_slot C07
            forall|fl: Seq<int>| #[trigger]
                free_list(old(self).nodes@, old(self).first_free_slot, old(self).last_free_slot, fl) ==> (if fl.len() > 0 {
                    first == Some(fl[0] as usize) && free_list_popped(
                        final(self).nodes@,
                        final(self).first_free_slot,
                        final(self).last_free_slot,
                        fl.drop_first(),
                        fl[0],
                    )
                } else {
                    first is None && final(self).first_free_slot == old(self).first_free_slot && final(self).last_free_slot
                        == old(self).last_free_slot
                }),
    {
        proof {
            axiom_vec_node_len(&self.nodes);
            // established once, for whatever state the function ends in (triggered by the postcondition itself)
            lemma_fl_ends_all(self.nodes@, self.first_free_slot, self.last_free_slot);
            lemma_popped_all(self.nodes@, self.first_free_slot, self.last_free_slot);
        }
        let first = self.first_free_slot.take();
        if let Some(index) = first {
            if let NodeData::NextFree(next_free) = self.nodes[index].data {
                self.first_free_slot = next_free;
            } else {
                unreachable!("A data node consider as a freed node");
            }
            if self.first_free_slot.is_none() {
                self.last_free_slot = None;
            }
        }
        first
    }
}
impl<T> Default for Arena<T> {
    fn default() -> (r: Self)
        // @props C13
        ensures
            // @ob C13.default_equals_new C13
            r.nodes@.len() == 0 && r.first_free_slot is None && r.last_free_slot is None,
    {
        Self {
            nodes: Vec::new(),
            first_free_slot: None,
            last_free_slot: None,
        }
    }
}
impl<T> Index<NodeId> for Arena<T> {
    type Output = Node<T>;
    fn index(&self, node: NodeId) -> (r: &Node<T>)
        // @props C11 C08
        ensures
            // @ob C11.index_addresses_the_slot_of_the_id C11 C08
            *r == self.at(node),
    {
        &self.nodes[node.index0()]
    }
}
impl<T> IndexMut<NodeId> for Arena<T> {
    fn index_mut(&mut self, node: NodeId) -> (r: &mut Node<T>)
        // @props C11 C08
        ensures
            // @ob C11.index_mut_addresses_the_slot_of_the_id C11 C08
            *r == old(self).at(node),
            // @ob C08.index_mut_writes_only_the_addressed_slot C08 C01
            final(self).nodes@ == old(self).nodes@.update(node.idx(), *final(r)),
            // @ob C07.Arena_index_mut_leaves_the_head_of_the_free_list_alone C07
            final(self).first_free_slot == old(self).first_free_slot,
            // @ob C07.Arena_index_mut_leaves_the_tail_of_the_free_list_alone C07
            final(self).last_free_slot == old(self).last_free_slot,
    {
        &mut self.nodes[node.index0()]
    }
}
pub fn assert_triangle_nodes<T>(
    arena: &Arena<T>,
    parent: Option<NodeId>,
    previous: Option<NodeId>,
    next: Option<NodeId>,
)
    // @props C05
    requires
        arena.ohas(previous),
        arena.ohas(next),
        previous is Some ==> arena.at(previous->0).parent == parent && arena.at(previous->0).next_sibling == next,
        next is Some ==> arena.at(next->0).parent == parent && arena.at(next->0).previous_sibling == previous,
{
    if let Some(previous_node) = match previous {
        Some(id) => Some(&arena[id]),
        None => None,
    } {
        assert_eq!(
            previous_node.parent, parent,
            "`prev->parent` must equal to `parent`"
        );
        assert_eq!(
            previous_node.next_sibling, next,
            "`prev->next` must equal to `next`"
        );
    }
    if let Some(next_node) = match next {
        Some(id) => Some(&arena[id]),
        None => None,
    } {
        assert_eq!(
            next_node.parent, parent,
            "`next->parent` must equal to `parent`"
        );
        assert_eq!(
            next_node.previous_sibling, previous,
            "`next->prev` must equal to `prev`"
        );
    }
}
pub fn connect_neighbors<T>(
    arena: &mut Arena<T>,
    parent: Option<NodeId>,
    previous: Option<NodeId>,
    next: Option<NodeId>,
)
    // @props C01 C03 C04 C05 C08
    requires
        old(arena).ohas(parent),
        old(arena).ohas(previous),
        old(arena).ohas(next),
        parent is Some ==> !old(arena).at(parent->0).stamp.removed() && (old(arena).at(parent->0).first_child is Some) == (old(
            arena,
        ).at(parent->0).last_child is Some),
        previous is Some ==> !old(arena).at(previous->0).stamp.removed() && old(arena).at(previous->0).parent == parent,
        next is Some ==> !old(arena).at(next->0).stamp.removed() && old(arena).at(next->0).parent == parent,
        previous is Some && next is Some ==> (previous->0).idx() != (next->0).idx(),
    ensures
        // @ob C08.connect_neighbors_keeps_every_payload_and_stamp C08
        payload_frame(old(arena).nodes@, final(arena).nodes@),
        // @ob C03.connect_neighbors_exact_effect C03 C04
        connect_post(old(arena).nodes@, final(arena).nodes@, parent, previous, next),
        final(arena).first_free_slot == old(arena).first_free_slot,
        final(arena).last_free_slot == old(arena).last_free_slot,
{
    if cfg!(debug_assertions) {
        if let Some(parent_node) = match parent {
            Some(id) => Some(&arena[id]),
            None => None,
        } {
            debug_assert_eq!(
                parent_node.first_child.is_some(),
                parent_node.last_child.is_some()
            );
            debug_assert!(!parent_node.is_removed());
        }
        debug_assert!(!match previous {
            Some(id) => arena[id].is_removed(),
            None => false,
        });
        debug_assert!(!match next {
            Some(id) => arena[id].is_removed(),
            None => false,
        });
    }
    let (mut parent_first_child, mut parent_last_child) = match match parent {
        Some(id) => Some(&arena[id]),
        None => None,
    } {
        Some(node) => (node.first_child, node.last_child),
        None => (None, None),
    };
    if let Some(previous) = previous {
        arena[previous].next_sibling = next;
        parent_first_child = parent_first_child.or(Some(previous));
    } else {
        parent_first_child = next;
    }
    if let Some(next) = next {
        arena[next].previous_sibling = previous;
        parent_last_child = parent_last_child.or(Some(next));
    } else {
        parent_last_child = previous;
    }
    if let Some(parent_node) = match parent {
        Some(id) => Some(&mut arena[id]),
        None => None,
    } {
        debug_assert_eq!(parent_first_child.is_some(), parent_last_child.is_some());
        parent_node.first_child = parent_first_child;
        parent_node.last_child = parent_last_child;
    }
    debug_assert_triangle_nodes!(arena, parent, previous, next);
}
pub fn insert_with_neighbors<T>(
    arena: &mut Arena<T>,
    new: NodeId,
    parent: Option<NodeId>,
    previous_sibling: Option<NodeId>,
    next_sibling: Option<NodeId>,
) -> (res: Result<(), ConsistencyError>)
    // @props C01 C02 C03 C05 C08 C12
    requires
        old(arena).wf(),
        // @ob C12.only_a_live_node_is_inserted C12 C05
        old(arena).live(new),
        // @ob C05.node_is_detached_before_it_is_inserted C05 C03
        is_root(old(arena).nodes@, new.idx()),
        // @ob C05.insert_position_is_a_gap C05 C03
        is_gap(old(arena).nodes@, parent, previous_sibling, next_sibling),
        // @ob C05.node_is_not_its_own_neighbour C05
        not_at(new.idx(), parent),
        not_at(new.idx(), previous_sibling),
        not_at(new.idx(), next_sibling),
        // @ob C02.inserted_node_is_not_an_ancestor_of_its_new_parent C02 C05
        parent is Some ==> exists|w: Ranks| ranked(old(arena).nodes@, w) && !in_sub(old(arena).nodes@, w, new.idx(), parent->0.idx()),
    ensures
        // @ob C05.insert_with_neighbors_succeeds C05
        res is Ok,
        // @ob C01.links_well_formed@insert_with_neighbors C01 C12
        links_ok(final(arena).nodes@),
        // @ob C02.acyclic@insert_with_neighbors C02 C01
        final(arena).acyclic(),
        // @ob C08.payload_tags_consistent@insert_with_neighbors C08
        data_ok(final(arena).nodes@),
        // @ob C07.free_list_well_formed@insert_with_neighbors C07
        final(arena).fl_ok(),
        // @ob C08.insert_keeps_every_payload_and_stamp C08
        payload_frame(old(arena).nodes@, final(arena).nodes@),
        // @ob C03.insert_exact_effect C03
        insert_post(old(arena).nodes@, final(arena).nodes@, new, parent, previous_sibling, next_sibling),
        final(arena).first_free_slot == old(arena).first_free_slot,
        final(arena).last_free_slot == old(arena).last_free_slot,
{
    let ghost w0: Ranks = if parent is Some {
        choose|w: Ranks| ranked(old(arena).nodes@, w) && !in_sub(old(arena).nodes@, w, new.idx(), parent->0.idx())
    } else {
        choose|w: Ranks| ranked(old(arena).nodes@, w)
    };
    proof {
        lemma_gap_transplant_pre(old(arena).nodes@, w0, new, parent, previous_sibling, next_sibling);
        if previous_sibling is Some {
            assert(previous_sibling != Some(new));
        }
    }
    debug_assert_triangle_nodes!(arena, parent, previous_sibling, next_sibling);
    if previous_sibling == Some(new) || next_sibling == Some(new) {
        return Err(ConsistencyError::SiblingsLoop);
    }
    if parent == Some(new) {
        return Err(ConsistencyError::ParentChildLoop);
    }
    SiblingsRange::new(new, new)
        .detach_from_siblings(arena)
        .transplant(arena, parent, previous_sibling, next_sibling)
        .expect("Should never fail: neighbors including parent are not `self`");
    proof {
        let c = seq![new.idx()];
        assert(is_chain(old(arena).nodes@, new.idx(), c));
        lemma_insert_links(old(arena).nodes@, arena.nodes@, w0, new, parent, previous_sibling, next_sibling);
        if parent is Some {
            lemma_shift_subtree(old(arena).nodes@, w0, new.idx(), parent->0.idx());
            let w1 = choose|w2: Ranks| ranked(old(arena).nodes@, w2) && (w2.depth)(new.idx()) > (w2.depth)(parent->0.idx());
            lemma_insert_ranks(old(arena).nodes@, arena.nodes@, w1, new, parent, previous_sibling, next_sibling);
        } else {
            lemma_insert_ranks(old(arena).nodes@, arena.nodes@, w0, new, parent, previous_sibling, next_sibling);
        }
        lemma_relink_wf(*old(arena), *arena);
    }
    debug_assert_triangle_nodes!(arena, parent, previous_sibling, Some(new));
    debug_assert_triangle_nodes!(arena, parent, Some(new), next_sibling);
    Ok(())
}
pub fn insert_last_unchecked<T>(arena: &mut Arena<T>, new: NodeId, parent: NodeId)
    // @props C01 C02 C03 C05 C08
    requires
        old(arena).wf(),
        old(arena).live(new),
        old(arena).live(parent),
        is_root(old(arena).nodes@, new.idx()),
        new.idx() != parent.idx(),
        exists|w: Ranks| ranked(old(arena).nodes@, w) && !in_sub(old(arena).nodes@, w, new.idx(), parent.idx()),
    ensures
        // @ob C01.links_well_formed@insert_last_unchecked C01 C12
        links_ok(final(arena).nodes@),
        // @ob C02.acyclic@insert_last_unchecked C02 C01
        final(arena).acyclic(),
        // @ob C08.payload_tags_consistent@insert_last_unchecked C08
        data_ok(final(arena).nodes@),
        // @ob C07.free_list_well_formed@insert_last_unchecked C07
        final(arena).fl_ok(),
        // @ob C08.insert_last_keeps_every_payload_and_stamp C08
        payload_frame(old(arena).nodes@, final(arena).nodes@),
        // @ob C03.insert_last_exact_effect C03
        insert_post(old(arena).nodes@, final(arena).nodes@, new, Some(parent), old(arena).at(parent).last_child, None),
        final(arena).first_free_slot == old(arena).first_free_slot,
        final(arena).last_free_slot == old(arena).last_free_slot,
{
    let ghost w0 = choose|w: Ranks| ranked(old(arena).nodes@, w) && !in_sub(old(arena).nodes@, w, new.idx(), parent.idx());
    proof {
        lemma_gap_at_end(arena.nodes@, parent);
        lemma_gap_transplant_pre(arena.nodes@, w0, new, Some(parent), arena.at(parent).last_child, None);
    }
    let previous_sibling = arena[parent].last_child;
    DetachedSiblingsRange::new(new, new)
        .transplant(arena, Some(parent), previous_sibling, None)
        .expect(
            "Should never fail, callers must verify assumptions when using fast path append.
                 `expect` only needed due to usage of shared functions that return a `Result`.",
        );
    proof {
        let c = seq![new.idx()];
        assert(is_chain(old(arena).nodes@, new.idx(), c));
        lemma_insert_links(old(arena).nodes@, arena.nodes@, w0, new, Some(parent), previous_sibling, None);
        lemma_shift_subtree(old(arena).nodes@, w0, new.idx(), parent.idx());
        let w1 = choose|w2: Ranks| ranked(old(arena).nodes@, w2) && (w2.depth)(new.idx()) > (w2.depth)(parent.idx());
        lemma_insert_ranks(old(arena).nodes@, arena.nodes@, w1, new, Some(parent), previous_sibling, None);
        lemma_relink_wf(*old(arena), *arena);
    }
    debug_assert_triangle_nodes!(arena, Some(parent), previous_sibling, Some(new));
}
#[derive(Debug, Clone, Copy)]
pub struct SiblingsRange {
    pub first: NodeId,
    pub last: NodeId,
}
impl SiblingsRange {
    pub fn new(first: NodeId, last: NodeId) -> (r: Self)
        ensures
            // @ob C03.SiblingsRange_new_keeps_the_ends_of_the_range C03 C04
            r.first == first,
            // @ob C03.SiblingsRange_new_keeps_the_ends_of_the_range C03 C04
            r.last == last,
    {
        Self { first, last }
    }
    pub fn detach_from_siblings<T>(self, arena: &mut Arena<T>) -> (r: DetachedSiblingsRange)
        // @props C01 C03 C04 C05 C08
        requires
            links_ok(old(arena).nodes@),
            old(arena).acyclic(),
            old(arena).has(self.first),
            old(arena).has(self.last),
            old(arena).at(self.first).parent == old(arena).at(self.last).parent,
            old(arena).at(self.first).previous_sibling is Some && old(arena).at(self.last).next_sibling is Some ==> old(arena).at(
                self.first,
            ).previous_sibling->0.idx() != old(arena).at(self.last).next_sibling->0.idx(),
            old(arena).at(self.last).next_sibling is Some ==> old(arena).at(self.last).next_sibling->0.idx() != self.first.idx(),
            old(arena).at(self.first).previous_sibling is Some ==> old(arena).at(self.first).previous_sibling->0.idx()
                != self.last.idx(),
        ensures
            // @ob C03.SiblingsRange_detach_from_siblings_keeps_the_ends_of_the_range C03 C04
            r.first == self.first,
            // @ob C03.SiblingsRange_detach_from_siblings_keeps_the_ends_of_the_range C03 C04
            r.last == self.last,
            // @ob C07.SiblingsRange_detach_from_siblings_leaves_the_head_of_the_free_list_alone C07
            final(arena).first_free_slot == old(arena).first_free_slot,
            // @ob C07.SiblingsRange_detach_from_siblings_leaves_the_tail_of_the_free_list_alone C07
            final(arena).last_free_slot == old(arena).last_free_slot,
            // @ob C08.detach_from_siblings_keeps_every_payload_and_stamp C08
            payload_frame(old(arena).nodes@, final(arena).nodes@),
            // @ob C03.detach_from_siblings_exact_effect C03 C04
            detach_range_post(old(arena).nodes@, final(arena).nodes@, self.first.idx(), self.last.idx()),
            // @ob C03.detaching_a_detached_root_changes_nothing C03
            is_root(old(arena).nodes@, self.first.idx()) && self.first == self.last ==> final(arena).nodes@ == old(arena).nodes@,
    {
        proof {
            let w = choose|w: Ranks| ranked(old(arena).nodes@, w);
            lemma_detach_facts(old(arena).nodes@, w, self.first.idx(), self.last.idx());
        }
        let parent = arena[self.first].parent;
        let prev_of_range = arena[self.first].previous_sibling.take();
        let next_of_range = arena[self.last].next_sibling.take();
        let ghost mid = arena.nodes@;
        connect_neighbors(arena, parent, prev_of_range, next_of_range);
        proof {
            let o = old(arena).nodes@;
            let n = arena.nodes@;
            let f = self.first.idx();
            let l = self.last.idx();
            assert(parent == o[f].parent);
            assert(prev_of_range == o[f].previous_sibling);
            assert(next_of_range == o[l].next_sibling);
            assert(mid.len() == o.len());
            assert forall|i: int| 0 <= i < o.len() implies mid[i].previous_sibling == (if i == f {
                None
            } else {
                o[i].previous_sibling
            }) by {}
            assert forall|i: int| 0 <= i < o.len() implies mid[i].next_sibling == (if i == l {
                None
            } else {
                o[i].next_sibling
            }) by {}
            assert forall|i: int| 0 <= i < o.len() implies mid[i].first_child == o[i].first_child && mid[i].last_child
                == o[i].last_child && mid[i].parent == o[i].parent && mid[i].stamp == o[i].stamp && mid[i].data == o[i].data by {}
            assert(connect_post(mid, n, parent, prev_of_range, next_of_range));
            if is_root(o, f) && self.first == self.last {
                assert(n =~= o);
            }
        }
        if cfg!(debug_assertions) {
            debug_assert_eq!(arena[self.first].previous_sibling, None);
            debug_assert_eq!(arena[self.last].next_sibling, None);
            debug_assert_triangle_nodes!(arena, parent, prev_of_range, next_of_range);
            if let Some(parent_node) = match parent {
                Some(id) => Some(&arena[id]),
                None => None,
            } {
                debug_assert_eq!(
                    parent_node.first_child.is_some(),
                    parent_node.last_child.is_some()
                );
                debug_assert_triangle_nodes!(arena, parent, None, parent_node.first_child);
                debug_assert_triangle_nodes!(arena, parent, parent_node.last_child, None);
            }
        }
        DetachedSiblingsRange {
            first: self.first,
            last: self.last,
        }
    }
}
#[derive(Debug, Clone, Copy)]
pub struct DetachedSiblingsRange {
    pub first: NodeId,
    pub last: NodeId,
}
impl DetachedSiblingsRange {
    pub fn new(first: NodeId, last: NodeId) -> (r: Self)
        ensures
            // @ob C03.DetachedSiblingsRange_new_keeps_the_ends_of_the_range C03 C04
            r.first == first,
            // @ob C03.DetachedSiblingsRange_new_keeps_the_ends_of_the_range C03 C04
            r.last == last,
    {
        Self { first, last }
    }
    pub fn rewrite_parents<T>(
        &self,
        arena: &mut Arena<T>,
        new_parent: Option<NodeId>,
    ) -> (res: Result<(), ConsistencyError>)
        // @props C01 C02 C03 C04 C05 C08
        requires
            exists|c: Seq<int>| is_chain(old(arena).nodes@, self.first.idx(), c),
        ensures
            // @ob C03.rewrite_parents_keeps_the_number_of_slots C03
            final(arena).nodes@.len() == old(arena).nodes@.len(),
            // @ob C07.DetachedSiblingsRange_rewrite_parents_leaves_the_head_of_the_free_list_alone C07
            final(arena).first_free_slot == old(arena).first_free_slot,
            // @ob C07.DetachedSiblingsRange_rewrite_parents_leaves_the_tail_of_the_free_list_alone C07
            final(arena).last_free_slot == old(arena).last_free_slot,
            // @ob C05.rewrite_parents_fails_only_on_parent_in_range C05
            forall|c: Seq<int>| #[trigger]
                is_chain(old(arena).nodes@, self.first.idx(), c) ==> (res is Err ==> new_parent is Some && c.contains(
                    new_parent->0.idx(),
                )),
            // @ob C08.rewrite_parents_keeps_every_payload_and_stamp C08
            payload_frame(old(arena).nodes@, final(arena).nodes@),
            // @ob C03.rewrite_parents_exact_effect C03 C04
            forall|c: Seq<int>| #[trigger]
                is_chain(old(arena).nodes@, self.first.idx(), c) ==> (res is Ok ==> reparent_post(
                    old(arena).nodes@,
                    final(arena).nodes@,
                    c,
                    new_parent,
                )),
    {
        let ghost c = choose|c: Seq<int>| is_chain(old(arena).nodes@, self.first.idx(), c);
        let ghost mut k: int = 0;
        let mut child_opt = Some(self.first);
        while let Some(child) = child_opt
            invariant
                arena.nodes@.len() == old(arena).nodes@.len(),
                arena.first_free_slot == old(arena).first_free_slot,
                arena.last_free_slot == old(arena).last_free_slot,
                is_chain(old(arena).nodes@, self.first.idx(), c),
                0 <= k <= c.len(),
                child_opt is Some <==> k < c.len(),
                child_opt is Some ==> child_opt->0.idx() == c[k],
                forall|i: int|
                    0 <= i < old(arena).nodes@.len() ==> {
                        &&& same_but_parent(#[trigger] arena.nodes@[i], old(arena).nodes@[i])
                        &&& arena.nodes@[i].parent == (if c.subrange(0, k).contains(i) {
                            new_parent
                        } else {
                            old(arena).nodes@[i].parent
                        })
                    },
            ensures
                child_opt is None,
            // @ob C02.rewrite_parents_terminates C02
            decreases c.len() - k,
        {
            if Some(child) == new_parent {
                proof {
                    assert(c[k] == new_parent->0.idx());
                    lemma_chain_unique(old(arena).nodes@, self.first.idx(), c);
                }
                return Err(ConsistencyError::ParentChildLoop);
            }
            let child_node = &mut arena[child];
            child_node.parent = new_parent;
            child_opt = child_node.next_sibling;
            proof {
                lemma_subrange_step(c, k);
                k = k + 1;
            }
        }
        proof {
            assert(k == c.len());
            assert(c.subrange(0, k) =~= c);
            lemma_chain_unique(old(arena).nodes@, self.first.idx(), c);
        }
        Ok(())
    }
    pub fn transplant<T>(
        self,
        arena: &mut Arena<T>,
        parent: Option<NodeId>,
        previous_sibling: Option<NodeId>,
        next_sibling: Option<NodeId>,
    ) -> (res: Result<(), ConsistencyError>)
        // @props C01 C03 C04 C05 C08
        requires
            exists|c: Seq<int>|
                transplant_pre(old(arena).nodes@, c, self.first, self.last, parent, previous_sibling, next_sibling),
        ensures
            // @ob C05.transplant_succeeds C05
            res is Ok,
            // @ob C07.DetachedSiblingsRange_transplant_leaves_the_head_of_the_free_list_alone C07
            final(arena).first_free_slot == old(arena).first_free_slot,
            // @ob C07.DetachedSiblingsRange_transplant_leaves_the_tail_of_the_free_list_alone C07
            final(arena).last_free_slot == old(arena).last_free_slot,
            // @ob C08.transplant_keeps_every_payload_and_stamp C08
            payload_frame(old(arena).nodes@, final(arena).nodes@),
            // @ob C03.transplant_exact_effect C03 C04
            forall|c: Seq<int>| #[trigger]
                is_chain(old(arena).nodes@, self.first.idx(), c) ==> transplant_post(
                    old(arena).nodes@,
                    final(arena).nodes@,
                    c,
                    self.first,
                    self.last,
                    parent,
                    previous_sibling,
                    next_sibling,
                ),
    {
        let ghost c = choose|c: Seq<int>|
            transplant_pre(old(arena).nodes@, c, self.first, self.last, parent, previous_sibling, next_sibling);
        proof {
            assert(c.contains(self.first.idx())) by {
                assert(c[0] == self.first.idx());
            }
            assert(c.contains(self.last.idx())) by {
                assert(c[c.len() - 1] == self.last.idx());
            }
        }
        if cfg!(debug_assertions) {
            if let Some(previous_sibling) = previous_sibling {
                debug_assert_eq!(arena[previous_sibling].parent, parent);
            }
            if let Some(next_sibling) = next_sibling {
                debug_assert_eq!(arena[next_sibling].parent, parent);
            }
            debug_assert_triangle_nodes!(arena, parent, previous_sibling, next_sibling);
            if let Some(parent_node) = match parent {
                Some(id) => Some(&arena[id]),
                None => None,
            } {
                debug_assert_eq!(
                    parent_node.first_child.is_some(),
                    parent_node.last_child.is_some()
                );
            }
        }
        self.rewrite_parents(arena, parent)?;
        let ghost m1 = arena.nodes@;
        proof {
            assert(reparent_post(old(arena).nodes@, m1, c, parent));
        }
        connect_neighbors(arena, parent, previous_sibling, Some(self.first));
        let ghost m2 = arena.nodes@;
        connect_neighbors(arena, parent, Some(self.last), next_sibling);
        proof {
            lemma_chain_unique(old(arena).nodes@, self.first.idx(), c);
            assert(transplant_post(
                old(arena).nodes@,
                arena.nodes@,
                c,
                self.first,
                self.last,
                parent,
                previous_sibling,
                next_sibling,
            ));
        }
        if cfg!(debug_assertions) {
            debug_assert_triangle_nodes!(arena, parent, previous_sibling, Some(self.first));
            debug_assert_triangle_nodes!(arena, parent, Some(self.last), next_sibling);
            if let Some(parent_node) = match parent {
                Some(id) => Some(&arena[id]),
                None => None,
            } {
                debug_assert!(
                    parent_node.first_child.is_some() && parent_node.last_child.is_some(),
                    "parent should have children (at least `self.first`)"
                );
                debug_assert_triangle_nodes!(arena, parent, None, parent_node.first_child);
                debug_assert_triangle_nodes!(arena, parent, parent_node.last_child, None);
            }
        }
        Ok(())
    }
}
#[derive(Clone)]
pub struct Iter<'a, T> {
    pub arena: &'a Arena<T>,
    pub node: Option<NodeId>,
}
impl<'a, T> Iter<'a, T> {
    pub fn new<VxI0: Into<Option<NodeId>>>(arena: &'a Arena<T>, node: VxI0) -> (r: Self)
        // @props C09
        ensures
            // @ob C09.Iter_new_stores_its_arguments C09
            r.arena == arena,
            // @ob C09.Iter_new_stores_its_arguments C09
            <VxI0 as vstd::std_specs::convert::IntoSpec<Option<NodeId>>>::obeys_into_spec() ==> r.node == <VxI0 as vstd::std_specs::convert::IntoSpec<
                Option<NodeId>,
            >>::into_spec(node),
    {
        let node = node.into();
        Self { arena, node }
    }
}
#[derive(Clone)]
pub struct DoubleEndedIter<'a, T> {
    pub arena: &'a Arena<T>,
    pub head: Option<NodeId>,
    pub tail: Option<NodeId>,
}
impl<'a, T> DoubleEndedIter<'a, T> {
    pub fn new<VxI0: Into<Option<NodeId>>, VxI1: Into<Option<NodeId>>>(
        arena: &'a Arena<T>,
        head: VxI0,
        tail: VxI1,
    ) -> (r: Self)
        // @props C10
        ensures
            // @ob C09.DoubleEndedIter_new_stores_its_arguments C09
            r.arena == arena,
            // @ob C09.DoubleEndedIter_new_stores_its_arguments C09
            <VxI0 as vstd::std_specs::convert::IntoSpec<Option<NodeId>>>::obeys_into_spec() ==> r.head == <VxI0 as vstd::std_specs::convert::IntoSpec<
                Option<NodeId>,
            >>::into_spec(head),
            // @ob C09.DoubleEndedIter_new_stores_its_arguments C09
            <VxI1 as vstd::std_specs::convert::IntoSpec<Option<NodeId>>>::obeys_into_spec() ==> r.tail == <VxI1 as vstd::std_specs::convert::IntoSpec<
                Option<NodeId>,
            >>::into_spec(tail),
    {
        let head = head.into();
        let tail = tail.into();
        Self { arena, head, tail }
    }
}
#[derive(Clone)]
pub struct Ancestors<'a, T>(pub Iter<'a, T>);
impl<'a, T> Ancestors<'a, T> {
    pub fn new(arena: &'a Arena<T>, node: NodeId) -> (r: Self)
        // @props C09 C02
        ensures
            // @ob C09.ancestors_start_at_the_node C09
            r.0.arena == arena && r.0.node == Some(node),
    {
        proof {
            axiom_into_some(node);
        }
        Self({ Iter::new(arena, node) })
    }
}
impl<'a, T> Ancestors<'a, T> {
    pub fn next(&mut self) -> (r: Option<NodeId>)
        // @props C09 C02
        requires
            old(self).0.node is Some ==> old(self).0.arena.has(old(self).0.node->0),
        ensures
            // @ob C09.ancestors_yield_the_cursor_then_its_parent C09 C02
            r == old(self).0.node,
            // @ob C09.Ancestors_next_keeps_its_arena C09
            final(self).0.arena == old(self).0.arena,
            // @ob C09.Ancestors_next_step_follows_the_documented_link C09
            final(self).0.node == (match old(self).0.node {
                Some(x) => old(self).0.arena.at(x).parent,
                None => None,
            }),
    {
        let node = self.0.node.take()?;
        self.0.node = {
            let node = &self.0.arena[node];
            node.parent
        };
        Some(node)
    }
}
#[derive(Clone)]
pub struct Predecessors<'a, T>(pub Iter<'a, T>);
impl<'a, T> Predecessors<'a, T> {
    pub fn new(arena: &'a Arena<T>, node: NodeId) -> (r: Self)
        // @props C09
        ensures
            // @ob C09.predecessors_start_at_the_node C09
            r.0.arena == arena && r.0.node == Some(node),
    {
        proof {
            axiom_into_some(node);
        }
        Self({ Iter::new(arena, node) })
    }
}
impl<'a, T> Predecessors<'a, T> {
    pub fn next(&mut self) -> (r: Option<NodeId>)
        // @props C09
        requires
            old(self).0.node is Some ==> old(self).0.arena.has(old(self).0.node->0),
        ensures
            // @ob C09.predecessors_yield_the_cursor_then_previous_sibling_or_parent C09
            r == old(self).0.node,
            // @ob C09.Predecessors_next_keeps_its_arena C09
            final(self).0.arena == old(self).0.arena,
            // @ob C09.Predecessors_next_step_follows_the_documented_link C09
            final(self).0.node == (match old(self).0.node {
                Some(x) => if old(self).0.arena.at(x).previous_sibling is Some {
                    old(self).0.arena.at(x).previous_sibling
                } else {
                    old(self).0.arena.at(x).parent
                },
                None => None,
            }),
    {
        let node = self.0.node.take()?;
        self.0.node = {
            let node = &self.0.arena[node];
            node.previous_sibling.or(node.parent)
        };
        Some(node)
    }
}
#[derive(Clone)]
pub struct PrecedingSiblings<'a, T>(pub DoubleEndedIter<'a, T>);
impl<'a, T> PrecedingSiblings<'a, T> {
    pub fn new(arena: &'a Arena<T>, node: NodeId) -> (r: Self)
        // @props C09 C10 C02
        requires
            arena.wf(),
            arena.live(node),
        ensures
            // @ob C09.PrecedingSiblings_new_starts_where_documented C09
            r.0.arena == arena,
            // @ob C09.PrecedingSiblings_start_at_the_node_and_follow_the_sibling_links C09 C10
            forall|w: Ranks| #[trigger]
                ranked(arena.nodes@, w) ==> deq(arena.nodes@, r.0.head, r.0.tail, walk(arena.nodes@, w, node, false), false),
    {
        let ghost w0 = choose|w: Ranks| ranked(arena.nodes@, w);
        let ghost d = walk(arena.nodes@, w0, node, false);
        proof {
            lemma_walk(arena.nodes@, w0, node, false);
            lemma_walk_end(arena.nodes@, w0, node, false);
            lemma_links_live(arena.nodes@, node.idx());
            axiom_into_some(node);
        }
        Self({
            let first = match match match arena.get(node).unwrap().parent {
                Some(parent_id) => arena.get(parent_id),
                None => None,
            } {
                Some(parent) => parent.first_child,
                None => None,
            } {
                Some(__vx_v1) => Some(__vx_v1),
                None => {
                    let mut first = node;
                    let ghost mut k: int = 0;
                    while let Some(previous) = arena[first].previous_sibling
                        invariant
                            0 <= k < d.len(),
                            d[k] == first,
                            run_ok(arena.nodes@, d, false),
                            lnk(arena.nodes@[d[d.len() - 1].idx()], false) is None,
                            k + 1 < d.len() ==> lnk(arena.nodes@[d[k].idx()], false) == Some(d[k + 1]),
                        ensures
                            k == d.len() - 1,
                        // @ob C02.PrecedingSiblings_far_end_walk_terminates C02
                        decreases d.len() - k,
                    {
                        proof {
                            assert(tgt_ok(arena.nodes@, Some(d[k])));
                            if k == d.len() - 1 {
                                assert(lnk(arena.nodes@[d[k].idx()], false) is None);
                            }
                        }
                        first = previous;
                        proof {
                            k = k + 1;
                        }
                    }
                    proof {
                        assert(tgt_ok(arena.nodes@, Some(d[k])));
                    }
                    Some(first)
                }
            };
            proof {
                axiom_into_self(first);
                assert(first == Some(d[d.len() - 1]));
                assert forall|w: Ranks| #[trigger] ranked(arena.nodes@, w) implies walk(arena.nodes@, w, node, false) == d by {
                    lemma_walk_indep(arena.nodes@, w, w0, node, false);
                }
            }
            DoubleEndedIter::new(arena, node, first)
        })
    }
}
impl<'a, T> PrecedingSiblings<'a, T> {
    pub fn next(&mut self) -> (r: Option<NodeId>)
        // @props C10 C09 C02
        requires
            exists|d: Seq<NodeId>| deq(old(self).0.arena.nodes@, old(self).0.head, old(self).0.tail, d, false),
        ensures
            // @ob C10.PrecedingSiblings_next_keeps_its_arena C10
            final(self).0.arena == old(self).0.arena,
            // @ob C10.PrecedingSiblings_front_pull_pops_the_front_of_the_deque C10 C09 C02
            forall|d: Seq<NodeId>| #[trigger]
                deq(old(self).0.arena.nodes@, old(self).0.head, old(self).0.tail, d, false) ==> {
                    &&& r == (if d.len() > 0 {
                        Some(d[0])
                    } else {
                        None
                    })
                    &&& deq(
                        final(self).0.arena.nodes@,
                        final(self).0.head,
                        final(self).0.tail,
                        if d.len() > 0 {
                            d.drop_first()
                        } else {
                            d
                        },
                        false,
                    )
                },
    {
        proof {
            // established once, for whatever state the function ends in (triggered by the deque of the postcondition)
            lemma_deq_all(self.0.arena.nodes@, false);
        }
        match (self.0.head, self.0.tail) {
            (Some(head), Some(tail)) if head == tail => {
                let result = head;
                self.0.head = None;
                self.0.tail = None;

                Some(result)
            }
            (Some(head), None) | (Some(head), Some(_)) => {

                self.0.head = {
                    let head = &self.0.arena[head];
                    head.previous_sibling
                };

                Some(head)
            }
            (None, Some(_)) | (None, None) => None,
        }
    }
}
impl<'a, T> PrecedingSiblings<'a, T> {
    pub fn next_back(&mut self) -> (r: Option<NodeId>)
        // @props C10 C02
        requires
            exists|d: Seq<NodeId>| deq(old(self).0.arena.nodes@, old(self).0.head, old(self).0.tail, d, false),
        ensures
            // @ob C10.PrecedingSiblings_next_back_keeps_its_arena C10
            final(self).0.arena == old(self).0.arena,
            // @ob C10.PrecedingSiblings_back_pull_pops_the_back_of_the_deque C10 C02
            forall|d: Seq<NodeId>| #[trigger]
                deq(old(self).0.arena.nodes@, old(self).0.head, old(self).0.tail, d, false) ==> {
                    &&& r == (if d.len() > 0 {
                        Some(d[d.len() - 1])
                    } else {
                        None
                    })
                    &&& deq(
                        final(self).0.arena.nodes@,
                        final(self).0.head,
                        final(self).0.tail,
                        if d.len() > 0 {
                            d.drop_last()
                        } else {
                            d
                        },
                        false,
                    )
                },
    {
        proof {
            // established once, for whatever state the function ends in (triggered by the deque of the postcondition)
            lemma_deq_all(self.0.arena.nodes@, false);
        }
        match (self.0.head, self.0.tail) {
            (Some(head), Some(tail)) if head == tail => {
                let result = head;
                self.0.head = None;
                self.0.tail = None;

                Some(result)
            }
            (None, Some(tail)) | (Some(_), Some(tail)) => {

                self.0.tail = {
                    let tail = &self.0.arena[tail];
                    tail.next_sibling
                };

                Some(tail)
            }
            (Some(_), None) | (None, None) => None,
        }
    }
}
#[derive(Clone)]
pub struct FollowingSiblings<'a, T>(pub DoubleEndedIter<'a, T>);
impl<'a, T> FollowingSiblings<'a, T> {
    pub fn new(arena: &'a Arena<T>, node: NodeId) -> (r: Self)
        // @props C09 C10 C02
        requires
            arena.wf(),
            arena.live(node),
        ensures
            // @ob C09.FollowingSiblings_new_starts_where_documented C09
            r.0.arena == arena,
            // @ob C09.FollowingSiblings_start_at_the_node_and_follow_the_sibling_links C09 C10
            forall|w: Ranks| #[trigger]
                ranked(arena.nodes@, w) ==> deq(arena.nodes@, r.0.head, r.0.tail, walk(arena.nodes@, w, node, true), true),
    {
        let ghost w0 = choose|w: Ranks| ranked(arena.nodes@, w);
        let ghost d = walk(arena.nodes@, w0, node, true);
        proof {
            lemma_walk(arena.nodes@, w0, node, true);
            lemma_walk_end(arena.nodes@, w0, node, true);
            lemma_links_live(arena.nodes@, node.idx());
            axiom_into_some(node);
        }
        Self({
            let last = match match match arena.get(node).unwrap().parent {
                Some(parent_id) => arena.get(parent_id),
                None => None,
            } {
                Some(parent) => parent.last_child,
                None => None,
            } {
                Some(__vx_v1) => Some(__vx_v1),
                None => {
                    let mut last = node;
                    let ghost mut k: int = 0;
                    while let Some(next) = arena[last].next_sibling
                        invariant
                            0 <= k < d.len(),
                            d[k] == last,
                            run_ok(arena.nodes@, d, true),
                            lnk(arena.nodes@[d[d.len() - 1].idx()], true) is None,
                            k + 1 < d.len() ==> lnk(arena.nodes@[d[k].idx()], true) == Some(d[k + 1]),
                        ensures
                            k == d.len() - 1,
                        // @ob C02.FollowingSiblings_far_end_walk_terminates C02
                        decreases d.len() - k,
                    {
                        proof {
                            assert(tgt_ok(arena.nodes@, Some(d[k])));
                            if k == d.len() - 1 {
                                assert(lnk(arena.nodes@[d[k].idx()], true) is None);
                            }
                        }
                        last = next;
                        proof {
                            k = k + 1;
                        }
                    }
                    proof {
                        assert(tgt_ok(arena.nodes@, Some(d[k])));
                    }
                    Some(last)
                }
            };
            proof {
                axiom_into_self(last);
                assert(last == Some(d[d.len() - 1]));
                assert forall|w: Ranks| #[trigger] ranked(arena.nodes@, w) implies walk(arena.nodes@, w, node, true) == d by {
                    lemma_walk_indep(arena.nodes@, w, w0, node, true);
                }
            }
            DoubleEndedIter::new(arena, node, last)
        })
    }
}
impl<'a, T> FollowingSiblings<'a, T> {
    pub fn next(&mut self) -> (r: Option<NodeId>)
        // @props C10 C09 C02
        requires
            exists|d: Seq<NodeId>| deq(old(self).0.arena.nodes@, old(self).0.head, old(self).0.tail, d, true),
        ensures
            // @ob C10.FollowingSiblings_next_keeps_its_arena C10
            final(self).0.arena == old(self).0.arena,
            // @ob C10.FollowingSiblings_front_pull_pops_the_front_of_the_deque C10 C09 C02
            forall|d: Seq<NodeId>| #[trigger]
                deq(old(self).0.arena.nodes@, old(self).0.head, old(self).0.tail, d, true) ==> {
                    &&& r == (if d.len() > 0 {
                        Some(d[0])
                    } else {
                        None
                    })
                    &&& deq(
                        final(self).0.arena.nodes@,
                        final(self).0.head,
                        final(self).0.tail,
                        if d.len() > 0 {
                            d.drop_first()
                        } else {
                            d
                        },
                        true,
                    )
                },
    {
        proof {
            // established once, for whatever state the function ends in (triggered by the deque of the postcondition)
            lemma_deq_all(self.0.arena.nodes@, true);
        }
        match (self.0.head, self.0.tail) {
            (Some(head), Some(tail)) if head == tail => {
                let result = head;
                self.0.head = None;
                self.0.tail = None;

                Some(result)
            }
            (Some(head), None) | (Some(head), Some(_)) => {

                self.0.head = {
                    let head = &self.0.arena[head];
                    head.next_sibling
                };

                Some(head)
            }
            (None, Some(_)) | (None, None) => None,
        }
    }
}
impl<'a, T> FollowingSiblings<'a, T> {
    pub fn next_back(&mut self) -> (r: Option<NodeId>)
        // @props C10 C02
        requires
            exists|d: Seq<NodeId>| deq(old(self).0.arena.nodes@, old(self).0.head, old(self).0.tail, d, true),
        ensures
            // @ob C10.FollowingSiblings_next_back_keeps_its_arena C10
            final(self).0.arena == old(self).0.arena,
            // @ob C10.FollowingSiblings_back_pull_pops_the_back_of_the_deque C10 C02
            forall|d: Seq<NodeId>| #[trigger]
                deq(old(self).0.arena.nodes@, old(self).0.head, old(self).0.tail, d, true) ==> {
                    &&& r == (if d.len() > 0 {
                        Some(d[d.len() - 1])
                    } else {
                        None
                    })
                    &&& deq(
                        final(self).0.arena.nodes@,
                        final(self).0.head,
                        final(self).0.tail,
                        if d.len() > 0 {
                            d.drop_last()
                        } else {
                            d
                        },
                        true,
                    )
                },
    {
        proof {
            // established once, for whatever state the function ends in (triggered by the deque of the postcondition)
            lemma_deq_all(self.0.arena.nodes@, true);
        }
        match (self.0.head, self.0.tail) {
            (Some(head), Some(tail)) if head == tail => {
                let result = head;
                self.0.head = None;
                self.0.tail = None;

                Some(result)
            }
            (None, Some(tail)) | (Some(_), Some(tail)) => {

                self.0.tail = {
                    let tail = &self.0.arena[tail];
                    tail.previous_sibling
                };

                Some(tail)
            }
            (Some(_), None) | (None, None) => None,
        }
    }
}
#[derive(Clone)]
pub struct Children<'a, T>(pub DoubleEndedIter<'a, T>);
impl<'a, T> Children<'a, T> {
    pub fn new(arena: &'a Arena<T>, node: NodeId) -> (r: Self)
        // @props C09 C10
        requires
            arena.wf(),
            arena.has(node),
        ensures
            // @ob C09.Children_new_starts_where_documented C09
            r.0.arena == arena,
            // @ob C09.children_are_the_child_list_in_order C09 C10
            forall|w: Ranks| #[trigger]
                ranked(arena.nodes@, w) ==> deq(arena.nodes@, r.0.head, r.0.tail, children_seq(arena.nodes@, w, node.idx()), true),
    {
        proof {
            axiom_into_self(arena.at(node).first_child);
            axiom_into_self(arena.at(node).last_child);
            assert forall|w: Ranks| #[trigger] ranked(arena.nodes@, w) implies deq(
                arena.nodes@,
                arena.at(node).first_child,
                arena.at(node).last_child,
                children_seq(arena.nodes@, w, node.idx()),
                true,
            ) by {
                lemma_children_deq(arena.nodes@, w, node.idx());
            }
        }
        Self({ DoubleEndedIter::new(arena, arena[node].first_child, arena[node].last_child) })
    }
}
impl<'a, T> Children<'a, T> {
    pub fn next(&mut self) -> (r: Option<NodeId>)
        // @props C10 C09 C02
        requires
            exists|d: Seq<NodeId>| deq(old(self).0.arena.nodes@, old(self).0.head, old(self).0.tail, d, true),
        ensures
            // @ob C10.Children_next_keeps_its_arena C10
            final(self).0.arena == old(self).0.arena,
            // @ob C10.Children_front_pull_pops_the_front_of_the_deque C10 C09 C02
            forall|d: Seq<NodeId>| #[trigger]
                deq(old(self).0.arena.nodes@, old(self).0.head, old(self).0.tail, d, true) ==> {
                    &&& r == (if d.len() > 0 {
                        Some(d[0])
                    } else {
                        None
                    })
                    &&& deq(
                        final(self).0.arena.nodes@,
                        final(self).0.head,
                        final(self).0.tail,
                        if d.len() > 0 {
                            d.drop_first()
                        } else {
                            d
                        },
                        true,
                    )
                },
    {
        proof {
            // established once, for whatever state the function ends in (triggered by the deque of the postcondition)
            lemma_deq_all(self.0.arena.nodes@, true);
        }
        match (self.0.head, self.0.tail) {
            (Some(head), Some(tail)) if head == tail => {
                let result = head;
                self.0.head = None;
                self.0.tail = None;
                Some(result)
            }
            (Some(head), None) | (Some(head), Some(_)) => {
                self.0.head = {
                    let node = &self.0.arena[head];
                    node.next_sibling
                };
                Some(head)
            }
            (None, Some(_)) | (None, None) => None,
        }
    }
}
impl<'a, T> Children<'a, T> {
    pub fn next_back(&mut self) -> (r: Option<NodeId>)
        // @props C10 C02
        requires
            exists|d: Seq<NodeId>| deq(old(self).0.arena.nodes@, old(self).0.head, old(self).0.tail, d, true),
        ensures
            // @ob C10.Children_next_back_keeps_its_arena C10
            final(self).0.arena == old(self).0.arena,
            // @ob C10.Children_back_pull_pops_the_back_of_the_deque C10 C02
            forall|d: Seq<NodeId>| #[trigger]
                deq(old(self).0.arena.nodes@, old(self).0.head, old(self).0.tail, d, true) ==> {
                    &&& r == (if d.len() > 0 {
                        Some(d[d.len() - 1])
                    } else {
                        None
                    })
                    &&& deq(
                        final(self).0.arena.nodes@,
                        final(self).0.head,
                        final(self).0.tail,
                        if d.len() > 0 {
                            d.drop_last()
                        } else {
                            d
                        },
                        true,
                    )
                },
    {
        proof {
            // established once, for whatever state the function ends in (triggered by the deque of the postcondition)
            lemma_deq_all(self.0.arena.nodes@, true);
        }
        match (self.0.head, self.0.tail) {
            (Some(head), Some(tail)) if head == tail => {
                let result = head;
                self.0.head = None;
                self.0.tail = None;

                Some(result)
            }
            (None, Some(tail)) | (Some(_), Some(tail)) => {

                self.0.tail = {
                    let tail = &self.0.arena[tail];
                    tail.previous_sibling
                };

                Some(tail)
            }
            (Some(_), None) | (None, None) => None,
        }
    }
}
#[derive(Clone)]
pub struct ReverseChildren<'a, T>(pub Iter<'a, T>);
impl<'a, T> ReverseChildren<'a, T> {
    pub fn new(arena: &'a Arena<T>, node: NodeId) -> (r: Self)
        // @props C09
        requires
            arena.has(node),
        ensures
            // @ob C09.reverse_children_start_at_the_last_child C09
            r.0.arena == arena && r.0.node == arena.at(node).last_child,
    {
        proof {
            axiom_into_self(arena.at(node).last_child);
        }
        Self({ Iter::new(arena, arena[node].last_child) })
    }
}
impl<'a, T> ReverseChildren<'a, T> {
    pub fn next(&mut self) -> (r: Option<NodeId>)
        // @props C09 C02
        requires
            old(self).0.node is Some ==> old(self).0.arena.has(old(self).0.node->0),
        ensures
            // @ob C09.reverse_children_yield_the_cursor_then_its_previous_sibling C09
            r == old(self).0.node,
            // @ob C09.ReverseChildren_next_keeps_its_arena C09
            final(self).0.arena == old(self).0.arena,
            // @ob C09.ReverseChildren_next_step_follows_the_documented_link C09
            final(self).0.node == (match old(self).0.node {
                Some(x) => old(self).0.arena.at(x).previous_sibling,
                None => None,
            }),
            // @ob C09.reverse_children_follow_the_documented_sequence C09 C02
            forall|w: Ranks|
                ranked(old(self).0.arena.nodes@, w) && links_ok(old(self).0.arena.nodes@) && old(self).0.node is Some && tgt_ok(
                    old(self).0.arena.nodes@,
                    old(self).0.node,
                ) ==> #[trigger] walk(old(self).0.arena.nodes@, w, old(self).0.node->0, false) == seq![old(self).0.node->0] + (
                if final(self).0.node is Some {
                    walk(old(self).0.arena.nodes@, w, final(self).0.node->0, false)
                } else {
                    Seq::empty()
                }),
    {
        proof {
            if self.0.node is Some {
                assert forall|w: Ranks|
                    ranked(self.0.arena.nodes@, w) && links_ok(self.0.arena.nodes@) && tgt_ok(self.0.arena.nodes@, self.0.node) implies #[trigger] walk(
                    self.0.arena.nodes@,
                    w,
                    self.0.node->0,
                    false,
                ) == seq![self.0.node->0] + (if self.0.arena.at(self.0.node->0).previous_sibling is Some {
                    walk(self.0.arena.nodes@, w, self.0.arena.at(self.0.node->0).previous_sibling->0, false)
                } else {
                    Seq::empty()
                }) by {
                    lemma_links_live(self.0.arena.nodes@, self.0.node->0.idx());
                    assert(ranked_at(self.0.arena.nodes@, w, self.0.node->0.idx()));
                    lemma_walk(self.0.arena.nodes@, w, self.0.node->0, false);
                }
            }
        }
        let node = self.0.node.take()?;
        self.0.node = {
            let node = &self.0.arena[node];
            node.previous_sibling
        };
        Some(node)
    }
}
#[derive(Clone)]
pub struct Descendants<'a, T>(pub Traverse<'a, T>);
impl<'a, T> Descendants<'a, T> {
    pub fn new(arena: &'a Arena<T>, current: NodeId) -> (r: Self)
        // @props C09
        ensures
            // @ob C09.Descendants_new_starts_where_documented C09
            r.0.arena == arena && r.0.root == current && r.0.next == Some(NodeEdge::Start(current)),
    {
        Self(Traverse::new(arena, current))
    }
}
impl<T> Descendants<'_, T> {
    pub fn next(&mut self) -> (r: Option<NodeId>)
        // @props C09 C02
        requires
            old(self).0.arena.wf(),
            old(self).0.next is Some ==> tgt_ok(old(self).0.arena.nodes@, Some(edge_node(old(self).0.next->0))),
        ensures
            // @ob C09.Descendants_next_keeps_arena_root_and_a_valid_cursor C09
            final(self).0.arena == old(self).0.arena && final(self).0.root == old(self).0.root,
            // @ob C09.Descendants_next_keeps_arena_root_and_a_valid_cursor C09
            final(self).0.next is Some ==> tgt_ok(final(self).0.arena.nodes@, Some(edge_node(final(self).0.next->0))),
            // @ob C09.descendants_are_the_start_edges_of_traverse_in_order C09
            forall|w: Ranks| #[trigger]
                ranked(old(self).0.arena.nodes@, w) ==> {
                    let fs = first_start(old(self).0.arena.nodes@, w, old(self).0.root, old(self).0.next);
                    &&& r == (match fs {
                        Some(NodeEdge::Start(n)) => Some(n),
                        _ => None,
                    })
                    &&& final(self).0.next == (match fs {
                        Some(st) => trav_step(old(self).0.arena.nodes@, old(self).0.root, st),
                        None => None,
                    })
                },
    {
        let ghost w0 = choose|w: Ranks| ranked(self.0.arena.nodes@, w);
        {
            let mut __vx_found1 = None;
            while let Some(edge) = self.0.next()
                invariant_except_break
                    __vx_found1 is None,
                invariant
                    self.0.arena == old(self).0.arena,
                    self.0.root == old(self).0.root,
                    self.0.arena.wf(),
                    ranked(self.0.arena.nodes@, w0),
                    self.0.next is Some ==> tgt_ok(self.0.arena.nodes@, Some(edge_node(self.0.next->0))),
                    __vx_found1 is None ==> forall|w: Ranks| #[trigger]
                        ranked(self.0.arena.nodes@, w) ==> first_start(self.0.arena.nodes@, w, self.0.root, self.0.next) == first_start(
                            self.0.arena.nodes@,
                            w,
                            self.0.root,
                            old(self).0.next,
                        ),
                ensures
                    forall|w: Ranks| #[trigger]
                        ranked(self.0.arena.nodes@, w) ==> {
                            let fs = first_start(self.0.arena.nodes@, w, self.0.root, old(self).0.next);
                            &&& __vx_found1 == (match fs {
                                Some(NodeEdge::Start(n)) => Some(n),
                                _ => None,
                            })
                            &&& self.0.next == (match fs {
                                Some(st) => trav_step(self.0.arena.nodes@, self.0.root, st),
                                None => None,
                            })
                        },
                // @ob C02.descendants_next_terminates C02
                decreases desc_measure(w0, self.0.next),
            {
                proof {
                    lemma_desc_step(self.0.arena.nodes@, w0, self.0.root, edge);
                    assert forall|w: Ranks| #[trigger] ranked(self.0.arena.nodes@, w) implies (edge is End ==> desc_measure(
                        w,
                        trav_step(self.0.arena.nodes@, self.0.root, edge),
                    ) < desc_measure(w, Some(edge))) by {
                        lemma_desc_step(self.0.arena.nodes@, w, self.0.root, edge);
                    }
                }
                let __vx_m2 = match edge {
                    NodeEdge::Start(node) => Some(node),
                    NodeEdge::End(_) => None,
                };
                if __vx_m2.is_some() {
                    __vx_found1 = __vx_m2;
                    break;
                }
            }
            __vx_found1
        }
    }
}
#[derive(Debug, Clone, Copy, PartialEq, Eq)]
pub enum NodeEdge {
    Start(NodeId),
    End(NodeId),
}
impl NodeEdge {
    pub fn next_traverse<T>(self, arena: &Arena<T>) -> (r: Option<Self>)
        // @props C09
        requires
            arena.has(edge_node(self)),
        ensures
            // @ob C09.next_traverse_is_the_documented_depth_first_step C09
            r == next_edge(arena.nodes@, self),
            // @ob C09.prev_traverse_undoes_next_traverse C09
            (links_ok(arena.nodes@) && tgt_ok(arena.nodes@, Some(edge_node(self))) && r is Some) ==> prev_edge(arena.nodes@, r->0) == Some(
                self,
            ),
    {
        proof {
            if links_ok(arena.nodes@) && tgt_ok(arena.nodes@, Some(edge_node(self))) {
                lemma_edge_inverse(arena.nodes@, self);
            }
        }
        match self {
            NodeEdge::Start(node) => match arena[node].first_child {
                Some(first_child) => Some(NodeEdge::Start(first_child)),
                None => Some(NodeEdge::End(node)),
            },
            NodeEdge::End(node) => {
                let node = &arena[node];
                match node.next_sibling {
                    Some(next_sibling) => Some(NodeEdge::Start(next_sibling)),
                    None => match node.parent {
                        Some(__vx_v1) => Some(NodeEdge::End(__vx_v1)),
                        None => None,
                    },
                }
            }
        }
    }
    pub fn prev_traverse<T>(self, arena: &Arena<T>) -> (r: Option<Self>)
        // @props C09
        requires
            arena.has(edge_node(self)),
        ensures
            // @ob C09.prev_traverse_is_the_documented_reverse_step C09
            r == prev_edge(arena.nodes@, self),
            // @ob C09.next_traverse_undoes_prev_traverse C09
            (links_ok(arena.nodes@) && tgt_ok(arena.nodes@, Some(edge_node(self))) && r is Some) ==> next_edge(arena.nodes@, r->0) == Some(
                self,
            ),
    {
        proof {
            if links_ok(arena.nodes@) && tgt_ok(arena.nodes@, Some(edge_node(self))) {
                lemma_edge_inverse(arena.nodes@, self);
            }
        }
        match self {
            NodeEdge::End(node) => match arena[node].last_child {
                Some(last_child) => Some(NodeEdge::End(last_child)),
                None => Some(NodeEdge::Start(node)),
            },
            NodeEdge::Start(node) => {
                let node = &arena[node];
                match node.previous_sibling {
                    Some(previous_sibling) => Some(NodeEdge::End(previous_sibling)),
                    None => match node.parent {
                        Some(__vx_v1) => Some(NodeEdge::Start(__vx_v1)),
                        None => None,
                    },
                }
            }
        }
    }
}
#[derive(Clone)]
pub struct Traverse<'a, T> {
    pub arena: &'a Arena<T>,
    pub root: NodeId,
    pub next: Option<NodeEdge>,
}
impl<'a, T> Traverse<'a, T> {
    pub fn new(arena: &'a Arena<T>, current: NodeId) -> (r: Self)
        // @props C09
        ensures
            // @ob C09.traverse_starts_at_the_start_edge_of_the_node C09
            r.arena == arena && r.root == current && r.next == Some(NodeEdge::Start(current)),
    {
        Self {
            arena,
            root: current,
            next: Some(NodeEdge::Start(current)),
        }
    }
    pub fn next_of_next(&self, next: NodeEdge) -> (r: Option<NodeEdge>)
        // @props C09
        requires
            self.arena.has(edge_node(next)),
        ensures
            // @ob C09.traverse_stops_exactly_at_the_end_edge_of_its_root C09
            r == (if next == NodeEdge::End(self.root) {
                None
            } else {
                next_edge(self.arena.nodes@, next)
            }),
    {
        if next == NodeEdge::End(self.root) {
            return None;
        }
        next.next_traverse(self.arena)
    }
    pub fn arena(&self) -> (r: &Arena<T>)
        ensures
            // @ob C09.Traverse_arena_accessor C09
            r == self.arena,
    {
        self.arena
    }
}
impl<T> Traverse<'_, T> {
    pub fn next(&mut self) -> (r: Option<NodeEdge>)
        // @props C09
        requires
            old(self).next is Some ==> old(self).arena.has(edge_node(old(self).next->0)),
        ensures
            // @ob C09.traverse_yields_the_pending_edge_and_steps_depth_first C09
            r == old(self).next,
            // @ob C09.Traverse_next_keeps_arena_and_root C09
            final(self).arena == old(self).arena && final(self).root == old(self).root,
            // @ob C09.Traverse_next_steps_to_the_documented_edge C09
            final(self).next == (match old(self).next {
                Some(e) => if e == NodeEdge::End(old(self).root) {
                    None
                } else {
                    next_edge(old(self).arena.nodes@, e)
                },
                None => None,
            }),
    {
        let next = self.next.take()?;
        self.next = self.next_of_next(next);
        Some(next)
    }
}
#[derive(Clone)]
pub struct ReverseTraverse<'a, T> {
    pub arena: &'a Arena<T>,
    pub root: NodeId,
    pub next: Option<NodeEdge>,
}
impl<'a, T> ReverseTraverse<'a, T> {
    pub fn new(arena: &'a Arena<T>, current: NodeId) -> (r: Self)
        // @props C09
        ensures
            // @ob C09.reverse_traverse_starts_at_the_end_edge_of_the_node C09
            r.arena == arena && r.root == current && r.next == Some(NodeEdge::End(current)),
    {
        Self {
            arena,
            root: current,
            next: Some(NodeEdge::End(current)),
        }
    }
    pub fn next_of_next(&self, next: NodeEdge) -> (r: Option<NodeEdge>)
        // @props C09
        requires
            self.arena.has(edge_node(next)),
        ensures
            // @ob C09.reverse_traverse_stops_exactly_at_the_start_edge_of_its_root C09
            r == (if next == NodeEdge::Start(self.root) {
                None
            } else {
                prev_edge(self.arena.nodes@, next)
            }),
    {
        if next == NodeEdge::Start(self.root) {
            return None;
        }
        next.prev_traverse(self.arena)
    }
}
impl<T> ReverseTraverse<'_, T> {
    pub fn next(&mut self) -> (r: Option<NodeEdge>)
        // @props C09
        requires
            old(self).next is Some ==> old(self).arena.has(edge_node(old(self).next->0)),
        ensures
            // @ob C09.reverse_traverse_yields_the_pending_edge_and_steps_backwards C09
            r == old(self).next,
            // @ob C09.ReverseTraverse_next_keeps_arena_and_root C09
            final(self).arena == old(self).arena && final(self).root == old(self).root,
            // @ob C09.ReverseTraverse_next_steps_to_the_documented_edge C09
            final(self).next == (match old(self).next {
                Some(e) => if e == NodeEdge::Start(old(self).root) {
                    None
                } else {
                    prev_edge(old(self).arena.nodes@, e)
                },
                None => None,
            }),
    {
        let next = self.next.take()?;
        self.next = self.next_of_next(next);
        Some(next)
    }
}
