#!/bin/bash
# usage: seedtest.sh <seed-name> <dir-with-patch.diff-and-demo.rs> [intended-property]
# Confirms a seeded change (compiles, existing tests pass, demo fails with / passes without), then runs every
# registered check against it in a scratch worktree.  Never touches /repo's working tree.
set -u
NAME=$1; SRC=$2; PROP=${3:-}
WT=/var/tmp/seedwt.$NAME; B=/var/tmp/seedvx.$NAME
rm -rf "$WT" "$B"; git -C /repo worktree prune
git -C /repo worktree add -q --detach "$WT" HEAD || exit 3
V=${VERIF_DIR:-/verif}
OUT=$V/seeded/$NAME; mkdir -p "$OUT"
[ "$SRC" -ef "$OUT" ] || { cp "$SRC/patch.diff" "$OUT/patch.diff"; cp "$SRC/demo.rs" "$OUT/demo.rs"; [ -f "$SRC/README.md" ] && cp "$SRC/README.md" "$OUT/agent_README.md"; }
cd "$WT"
if [ -n "${SKIP_CONFIRM:-}" ] && python3 -c "import json,sys;m=json.load(open('$OUT/meta.json'));c=m['confirmed'];sys.exit(0 if all(c.values()) else 1)" 2>/dev/null; then
  # (already confirmed in an earlier run: compile + suite + demo both ways)
  git apply "$OUT/patch.diff" || { echo "patch does not apply"; exit 3; }
  DEMO_ORIG=0; SUITE=0; DEMO_MUT=101
  echo "confirm: (taken from the earlier confirmation recorded in meta.json)"
else
# 1. demo passes on the original
cp "$OUT/demo.rs" indextree/tests/seed_demo.rs
timeout 900 cargo test --offline -q -p indextree --test seed_demo > "$B.demo_orig.log" 2>&1; DEMO_ORIG=$?
rm indextree/tests/seed_demo.rs
# 2. apply the change; existing suite passes
git apply "$OUT/patch.diff" || { echo "patch does not apply"; exit 3; }
timeout 1800 cargo test --workspace --offline > "$B.suite.log" 2>&1; SUITE=$?
# 3. demo fails with the change
cp "$OUT/demo.rs" indextree/tests/seed_demo.rs
timeout 900 cargo test --offline -q -p indextree --test seed_demo > "$B.demo_mut.log" 2>&1; DEMO_MUT=$?
rm indextree/tests/seed_demo.rs
echo "confirm: demo_on_original_exit=$DEMO_ORIG (want 0)  suite_with_change_exit=$SUITE (want 0)  demo_with_change_exit=$DEMO_MUT (want !=0)"
fi
# 4. the checks
cd $V
RES=""
for p in ${PROPS:-$(python3 -c "import json;print(' '.join(c['property_id'] for c in json.load(open('MANIFEST.json'))['checks']))")}; do
  VX_REPO=$WT VX_BUILD=$B timeout 3000 ./check $p --tier ${TIER:-quick} > "$B.$p.log" 2>&1; rc=$?
  RES="$RES $p=$rc"
  if [ $rc -ne 0 ]; then grep -E "^(failed obligation|VIOLATION|UNDECIDED|KNOWN)" "$B.$p.log" | head -4 | sed "s/^/   [$p] /"; fi
done
echo "checks:$RES"
python3 - "$NAME" "$PROP" "$DEMO_ORIG" "$SUITE" "$DEMO_MUT" "$RES" "$V" <<'PY'
import json,sys,os
name,prop,do,su,dm,res,V=sys.argv[1:8]
r={k:int(v) for k,v in (x.split('=') for x in res.split())}
meta={"name":name,"breaks_property":prop,"confirmed":{"demo_passes_on_original":do=="0","existing_suite_passes_with_change":su=="0","demo_fails_with_change":dm!="0"},
 "commands":["git apply patch.diff (scratch worktree of /repo)","cargo test --workspace --offline","cargo test --offline -p indextree --test seed_demo (demo.rs copied to indextree/tests/seed_demo.rs)","VX_REPO=<worktree> ./check <ID> for every registered check"],
 "check_exit_codes":r,"detected_by":[k for k,v in r.items() if v==1],"undecided":[k for k,v in r.items() if v==2]}
p=V+'/seeded/%s/meta.json'%name
old=json.load(open(p)) if os.path.exists(p) else {}
# a run restricted to some properties (PROPS=...) refreshes those and keeps the earlier results of the others
codes=dict(old.get("check_exit_codes",{})); codes.update(r); meta["check_exit_codes"]=codes
meta["detected_by"]=[k for k,v in sorted(codes.items()) if v==1]; meta["undecided"]=[k for k,v in sorted(codes.items()) if v==2]
meta["last_run_covered"]=sorted(r)
old.update(meta); json.dump(old,open(p,'w'),indent=1)
PY
git -C /repo worktree remove --force "$WT"; rm -rf "$B" "$B".*.log 2>/dev/null
