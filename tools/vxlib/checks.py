"""Per-property verdicts, evidence files and the VIOLATION / KNOWN-FINDING protocol."""
import hashlib
import json
import os
import re
import sys
import time

from . import pipeline as P

VERIF = P.VERIF
# scratch runs (VX_BUILD set) keep their evidence and replay files out of /verif
EVID = os.path.join(os.environ["VX_BUILD"], "evidence") if os.environ.get("VX_BUILD") else os.path.join(VERIF, "evidence")
REPLAY = os.path.join(P.BUILD, "replay")

TRUSTED_COMMON = [
    "Verus 0.2026.09.13 (rust_verify + vstd) and its bundled Z3 as the proof checker",
    "the extraction rules R1-R7 of tools/vx-extract are the std definitions they claim to be (DESIGN.md 2.1)",
    "rule R8: the four raw-pointer statements of Arena::get_node_id are replaced by the trusted primitive vx_slice_position (assumed: Some(i) => i < len and nodes[i] is the referenced node)",
    "rustc's own expansion of the new_iterator! macro (cargo +nightly rustc -Zunpretty=expanded)",
    "panic primitives (assert!/debug_assert*/unreachable!/expect/unwrap/indexing/overflow) are modelled as obligations; "
    "cfg!(debug_assertions) is true under Verus, so the debug build is what is verified",
    "derived PartialEq/Default on plain data is structural (PartialEqSpecImpl for NodeId/NodeEdge, Structural for NodeStamp, "
    "assume_specification for NodeStamp::default)",
    "NonZeroUsize extensionality (axiom_nonzero_ext)",
]


def load_properties():
    out = {}
    for l in open(os.path.join(VERIF, "properties.jsonl")):
        if l.strip():
            p = json.loads(l)
            out[p["id"]] = p
    return out


def load_known():
    p = os.path.join(VERIF, "known_findings.json")
    if os.path.exists(p):
        return json.load(open(p))
    return {"findings": [], "fixed": []}


def assumption_scan(gen_text):
    """every place where something is assumed rather than proved"""
    out = []
    lines = gen_text.split("\n")
    for n, l in enumerate(lines, 1):
        s = l.strip()
        if s.startswith("//"):
            continue
        if re.search(r"\bassume\s*\(", s) or re.search(r"\badmit\s*\(", s):
            out.append({"kind": "assume/admit", "line": n, "text": s[:120]})
        if "assume_specification" in s:
            out.append({"kind": "assume_specification", "line": n, "text": s[:160]})
        if "external_body" in s:
            # name of the item that follows
            nxt = ""
            for k in range(n, min(n + 4, len(lines))):
                m = re.search(r"\bfn\s+(\w+)", lines[k])
                if m:
                    nxt = m.group(1)
                    break
            out.append({"kind": "external_body", "line": n, "item": nxt})
        if re.search(r"\bexec_allows_no_decreases_clause\b|\bexternal\b\]", s):
            out.append({"kind": "other-escape", "line": n, "text": s[:120]})
    return out


def write_replay(pid, n, failure, extra=""):
    os.makedirs(REPLAY, exist_ok=True)
    h = hashlib.sha256((failure["obligation"] + failure["rendered"]).encode()).hexdigest()[:10]
    path = os.path.join(REPLAY, "%s-%s.txt" % (pid, h))
    with open(path, "w") as f:
        f.write("property: %s\n" % pid)
        f.write("failed obligation: %s\n" % failure["obligation"])
        f.write("function under contract: %s\n" % failure["function"])
        f.write("verifier: Verus (see evidence file for the exact command)\n")
        f.write("verifier message: %s\n\n" % failure["message"])
        f.write(failure["rendered"])
        f.write("\n")
        if extra:
            f.write(extra)
    return path


def write_witness_replay(pid, w, failed_obligations):
    os.makedirs(REPLAY, exist_ok=True)
    h = hashlib.sha256((pid + w["ops"] + w["msg"]).encode()).hexdigest()[:10]
    path = os.path.join(REPLAY, "%s-witness-%s.txt" % (pid, h))
    with open(path, "w") as f:
        f.write("property: %s\n" % pid)
        f.write("failing input (operation sequence on a new Arena, node numbers are creation order, 0-based):\n")
        f.write("witness ops: %s\n" % w["ops"])
        f.write("observed on the real code (%s): %s\n" % (w.get("build", ""), w["msg"]))
        f.write("replay: /verif/check --replay %s   (re-runs this sequence against /repo through the public API)\n\n" % path)
        f.write("obligations the verifier failed on this tree:\n")
        for o in failed_obligations[:20]:
            f.write("  - %s\n" % o)
    return path


def decide_c17(tier, seed):
    from . import c17
    t0 = time.time()
    cov, violations, notes = c17.check(seed, tier)
    paths = []
    for n, x in enumerate(violations):
        paths.append(write_replay("C17", n, x))
    cov["trusted_base"] = TRUSTED_COMMON
    ev = {"property_id": "C17", "tier": tier, "seed": seed, "level": "other", "coverage": cov,
          "assumptions": TRUSTED_COMMON + ["restricted claim: only the functions under contract; pretty-printed text, serde and the macros crate are outside"],
          "wall_s": round(time.time() - t0, 2), "violations": len(violations)}
    os.makedirs(EVID, exist_ok=True)
    json.dump(ev, open(os.path.join(EVID, "C17.json"), "w"), indent=1)
    if violations:
        for x, pth in zip(violations, paths):
            print("failed obligation: %s" % x["obligation"])
            if x.get("witness_ops"):
                print("VIOLATION property=C17 replay=%s" % pth)
            else:
                print("VIOLATION property=C17 replay=%s no-failing-input-found" % pth)
        return 1
    print("C17: %d feature sets extracted, %d distinct variant(s) of the functions under contract" % (cov["evaluations"], cov["distinct_variants"]))
    return 0


def decide(pid, tier, seed):
    t0 = time.time()
    props = load_properties()
    if pid not in props:
        print("unknown property %s" % pid)
        return 2
    if pid == "C17":
        return decide_c17(tier, seed)
    known = load_known()
    notes = []
    quarantined = {}
    for _round in range(14):
        g = P.generate(quarantined=quarantined)
        gi = P.GenIndex(g["gen_text"])
        r = P.run_verus(g["gen_path"], g["gen_text"], label="main")
        fails, tools, res = P.obligations_from(r, gi)
        # an unsupported construct inside one function body: take that function out (it is then
        # assumed, not proved: every property tagged on it becomes undecided) and decide the rest
        bad = set()
        for t in tools:
            f = gi.func_at(t["line"]) if t["line"] else None
            changed_code = f is not None and g["splice"]["functions"].get(f["name"], {}).get("status") in ("transplanted", "quarantined", "uncontracted")
            structural = any(v == "changed" for v in g["splice"]["types"].values()) or bool(g["splice"].get("uncontracted"))
            new_fn = f is not None and any(u == f["name"] or u.endswith("::" + f["name"]) or f["name"].endswith("::" + u.split("::")[-1]) for u in g["splice"].get("uncontracted", []))
            if f and f["mode"] == "exec" and (not f["external_body"] or changed_code or new_fn) and (
                    changed_code or new_fn or structural or "not supported" in t["message"]
                    or "unsupported" in t["message"].lower() or "does not yet support" in t["message"]):
                # either Verus cannot read a construct of the body, or the body changed so much that
                # the ghost text no longer fits it (a ghost name is out of scope, a type no longer matches),
                # or the body does not even compile in the extracted world (e.g. it uses an iterator adapter
                # the extraction has no rule for)
                bad.add((f["name"], t["line"] < f["body_line"]))
        # an error inside the initialiser of a constant that is new in /repo: make that constant opaque
        progressed_c = False
        glines = g["gen_text"].split("\n")
        for t in tools:
            if not t["line"] or gi.func_at(t["line"]):
                continue
            k = t["line"] - 1
            while k >= 0 and k > t["line"] - 12:
                mm = re.match(r"\s*// @newconst (\w+)", glines[k]) if k < len(glines) else None
                if mm:
                    curc = quarantined.get("const:" + mm.group(1), 0)
                    if curc < 2:
                        quarantined["const:" + mm.group(1)] = curc + 1
                        progressed_c = True
                    break
                k -= 1
        if progressed_c:
            continue
        if not bad or not tools:
            break
        progressed = False
        for name, in_header in bad:
            cur = quarantined.get(name, 0)
            if in_header:
                new_level = {0: 2, 1: 2, 3: 4}.get(cur, cur)
            else:
                new_level = {0: 1, 1: 3, 2: 4}.get(cur, cur)
            if new_level != cur:
                quarantined[name] = new_level
                progressed = True
        if not progressed:
            break
    # functions whose body (level 1) or whole contract (level 2) could not be kept: the properties they carry
    lost = {n: v.get("props", []) for n, v in g["splice"]["functions"].items() if v["status"] in ("quarantined", "uncontracted")}
    if lost:
        notes.append("functions taken out of verification (unsupported construct, or ghost text / contract no longer fits the changed code): "
                     + ", ".join("%s[%s]" % (n, g["splice"]["functions"][n]["status"]) for n in lost))
        # (properties tagged on such a function are decided by the witness step below, or stay undecided)
    # a caller of a function that has no contract cannot be blamed for what it can no longer prove
    unc = [u.split("::")[-1] for u in g["splice"].get("uncontracted", [])]
    opq = g["splice"].get("opaque_constants", [])
    if opq:
        notes.append("constants of /repo whose initialiser the verifier cannot read (value unknown to it): " + ", ".join(opq))
        patc = re.compile(r"\b(" + "|".join(re.escape(u) for u in opq) + r")\b")
        for x in fails:
            f = [f for f in gi.funcs if f["name"] == x["function"]]
            if f and patc.search(f[0]["text"]):
                x["specific"] = False
    # conversions through the crate's `From` impls (`x.into()`, `usize::from(id)`): the impls are outside the verified
    # text (rule R3b keeps them as external items), so Verus knows nothing about the value they return; a changed
    # function that newly routes a value through them cannot be verified, which is not a refutation
    conv = re.compile(r"\.\s*(into|try_into)\s*\(\s*\)|\b(usize|NonZeroUsize|Option|Self|NodeId)\s*::\s*(from|try_from)\s*\(")
    for x in fails:
        st = g["splice"]["functions"].get(x["function"], {})
        f = [f for f in gi.funcs if f["name"] == x["function"]]
        if x.get("specific") and f and (st.get("status") == "transplanted" or x["function"].startswith("from_")) and conv.search(f[0]["text"]):
            x["specific"] = False
            notes.append("%s converts a value through a From/Into impl that is outside the verified text: its failed obligations count as undecided" % x["function"])
    # a changed function that calls something the verified text has never called (a std method, a trait method): what
    # the verifier knows about that callee is unknown (vstd often has a specification that says nothing about the
    # value), so a clause that fails there is a proof gap until a failing input shows otherwise
    vocab = set(re.findall(r"\b([A-Za-z_][A-Za-z_0-9]*)\s*(?:::\s*<[^>]*>\s*)?\(", "".join(P.contracts_text().values())))
    for x in fails:
        st = g["splice"]["functions"].get(x["function"], {})
        f = [f for f in gi.funcs if f["name"] == x["function"]]
        if x.get("specific") and f and st.get("status") == "transplanted":
            called = set(re.findall(r"\b([A-Za-z_][A-Za-z_0-9]*)\s*(?:::\s*<[^>]*>\s*)?\(", f[0]["text"]))
            new_callees = sorted(called - vocab - {"if", "while", "match", "for", "return", "Some", "Ok", "Err", "None"})
            if new_callees:
                x["specific"] = False
                notes.append("%s now calls %s, which the verified text never called: its failed obligations count as undecided unless a failing input is found"
                             % (x["function"], ", ".join(new_callees)))
    if unc:
        notes.append("functions of /repo without a contract (emitted external_body, no specification): " + ", ".join(g["splice"]["uncontracted"]))
        pat = re.compile(r"\b(" + "|".join(re.escape(u) for u in unc) + r")\s*(::<[^>]*>)?\(")
        for x in fails:
            f = [f for f in gi.funcs if f["name"] == x["function"]]
            if f and pat.search(f[0]["text"]):
                x["specific"] = False
    # a function whose control-flow skeleton changed and whose master body carries proof script: a clause that
    # fails there may fail only because the proof hints now sit on another path (a refactoring, not a defect);
    # such a failure is undecided unless the witness step finds a failing input
    reshaped = [n for n, v in g["splice"]["functions"].items() if v.get("status") == "transplanted" and v.get("skeleton_changed") and v.get("body_ghost")]
    if reshaped:
        for x in fails:
            if x["function"] in reshaped and x.get("specific"):
                x["specific"] = False
                x["reshaped"] = True
        if any(x.get("reshaped") for x in fails):
            notes.append("control flow of %s changed and its proof script is tied to the old shape: failed obligations there count as undecided unless a failing input is found" % ", ".join(reshaped))
    base_out = load_baseline().get("outside", {})
    cur_out = outside_hashes(g)
    for item, props_ in OUTSIDE_WATCH.items():
        if item in base_out and cur_out.get(item) != base_out[item]:
            fails.append({"function": item, "obligation": "%s changed (outside the verified text: formatting is beyond the verifier; decided by the witness step only)" % item,
                          "props": props_, "specific": False, "line": 0, "message": "token hash %s, baseline %s" % (cur_out.get(item), base_out[item]), "rendered": ""})
    # "with_capacity(n) and reserve(k) guarantee room": vstd's view of Vec has no capacity, so that clause of C13 cannot be
    # a contract; the three one-line functions are compared with the verified text instead, and a change hands C13 to the
    # witness step (whose oracle reads capacity())
    for fn_ in ("Arena::reserve", "Arena::with_capacity", "Arena::capacity"):
        st_ = g["splice"]["functions"].get(fn_, {})
        if st_ and st_.get("status") != "exact":
            fails.append({"function": fn_, "obligation": "%s changed; its capacity guarantee is std's and cannot be stated over vstd's view of Vec (decided by the witness step only)" % fn_,
                          "props": ["C13"], "specific": False, "line": 0, "message": "function text differs from the verified text", "rendered": ""})
    # derive lists the contracts rely on (derived Clone/PartialEq/Eq/Copy/Default taken with their std meaning)
    for tname, d in sorted(g["splice"].get("derives_changed", {}).items()):
        lost_tr = sorted(set(d["contracts"]) - set(d["repo"]))
        if not lost_tr:
            continue
        value_types = ("Arena", "Node", "NodeData", "NodeStamp", "NodeId")
        spec_props = ["C13"] if tname in value_types and set(lost_tr) & {"Clone", "PartialEq", "Eq"} else []
        weak_props = {"NodeId": ["C05", "C06", "C11"], "NodeStamp": ["C06"], "NodeEdge": ["C09"], "Arena": ["C05"]}.get(tname, []) if set(lost_tr) & {"PartialEq", "Eq"} else []
        fails.append({"function": "type " + tname, "obligation": "type %s: derives %s (C13.value_semantics_are_the_derived_ones)" % (tname, ", ".join(lost_tr)),
                      # (a hand-written impl may well be equivalent to the derived one: undecided unless the witness step
                      # finds histories on which clone / == misbehave)
                      "props": spec_props + weak_props, "specific": False, "line": 0,
                      "message": "the contracts take Clone / PartialEq / Eq / Copy / Default of this type to be the derived ones; /repo no longer derives %s "
                                 "(a hand-written impl is outside the verified text)" % ", ".join(lost_tr),
                      "rendered": "contracts: #[derive(%s)]\n/repo:     #[derive(%s)]\n" % (", ".join(d["contracts"]), ", ".join(d["repo"]))})
    if r["summary"] is None:
        raise P.Undecided("verus produced no summary: " + " ".join(r["stderr_other"][-5:]))
    if tools:
        raise P.Undecided("the generated file does not compile under Verus (ghost text no longer fits the code?): "
                          + tools[0]["message"] + " @line %s" % tools[0]["line"])
    fb = P.function_breakdown(r)
    funcs = [f for f in gi.funcs if pid in f["props"] and not f["external_body"]]
    if not funcs:
        raise P.Undecided("no function under contract is tagged with %s" % pid)
    fnames = set(f["name"] for f in funcs)
    # resource limits: one retry with a larger budget, then undecided
    res_mine = [x for x in res if x["function"] in fnames or x["function"] == "?" or gi_mode(gi, x["function"]) == "proof"]
    undischarged = []
    if res_mine:
        r2 = P.run_verus(g["gen_path"], g["gen_text"], extra=["--rlimit", "40"], label="retry")
        fails2, tools2, res2 = P.obligations_from(r2, gi)
        res_mine2 = [x for x in res2 if x["function"] in fnames or gi_mode(gi, x["function"]) == "proof"]
        r, fails, res = r2, fails2, res2
        fb = P.function_breakdown(r)
        notes.append("main run hit a resource limit; verdict taken from the retry with --rlimit 40")
        if res_mine2:
            # The solver gave up (no proof, no refutation).  If the function's code is the code the
            # committed baseline was discharged on, this is solver instability: undecided.  If the
            # code changed, obligations that were discharged on the baseline are now undischarged
            # even with four times the budget: reported as a violation, with the solver's reason.
            base = load_baseline()
            changed = changed_functions(g, base)
            stable = [x for x in res_mine2 if x["function"] not in changed]
            if stable:
                raise P.Undecided("resource limit exceeded on unchanged code in " + ", ".join(sorted(set(x["function"] for x in stable))))
            for x in res_mine2:
                f = [f for f in funcs if f["name"] == x["function"]]
                x = dict(x)
                x["props"] = f[0]["props"] if f else []
                x["obligation"] = "%s: all obligations (discharged on the baseline code, undischarged on the changed code at 4x the resource limit)" % x["function"]
                undischarged.append(x)
    # lemma failures cannot be caused by /repo (lemmas are pure ghost text): undecided
    lemma_fail = [x for x in fails if gi_mode(gi, x["function"]) == "proof"]
    if lemma_fail:
        raise P.Undecided("a ghost lemma fails (framework defect, not a verdict): " + lemma_fail[0]["obligation"])
    # vacuity guard
    vac, probed, vr = P.vacuity_check(g)
    vac_mine = [v for v in vac if v in fnames]
    if vac_mine:
        raise P.Undecided("vacuous contract (unsatisfiable precondition) in " + ", ".join(vac_mine))
    mine = [x for x in fails if pid in x["props"]] + [x for x in undischarged if pid in x["props"]]
    kani_cov = {}
    if pid == "C11":
        # Arena::get_node_id: rule R8 brings everything after the raw-pointer idiom under contract (a returned id names the slot that
        # holds the node and carries that slot's stamp: proved).  That the pointer idiom finds the slot of a node of this arena
        # (the round trip returns Some) stays with the bounded Kani harnesses, labelled bounded
        kr = P.kani_check(tier)
        bad = [h for h in kr["harnesses"] if h["status"] == "error"]
        if bad:
            raise P.Undecided("Kani harness %s did not run: %s" % (bad[0]["name"], bad[0]["tail"][-300:]))
        for h in kr["harnesses"]:
            if h["status"] == "failed":
                mine.append({"function": "Arena::get_node_id", "obligation": "bounded Kani harness %s (arenas of at most 3 slots)" % h["name"],
                             "props": ["C11"], "specific": True, "message": "Kani: VERIFICATION FAILED", "rendered": h["tail"]})
        kani_cov = {"bounded_checks": {"label": "BOUNDED, not counted as proved", "tool": "Kani 0.68 / CBMC", "bound": "arenas of 1..=3 slots, at most one removal and "
                                       "one recycling, payload types u8 and u64; quick tier: gni_fresh (debug build) + gni_small_recycled (fixed history, built without "
                                       "debug assertions); thorough tier adds gni_full_recycled and runs all in a debug build",
                                       "harnesses": [{k: h.get(k) for k in ("name", "status", "checks", "debug_assertions")} for h in kr["harnesses"]],
                                       "wall_s": kr["wall_s"], "what": "get_node_id(arena.get(id)) == Some(id) for fresh and recycled slots (the direction that depends on the raw-pointer idiom replaced by rule R8: a node of this arena is found; the index and stamp of a returned id are proved by Verus)"}}
    mp_cov = {}
    if pid in ("C05", "C12"):
        # the unchecked forms and append_value must panic exactly when the request is impossible,
        # with the arena untouched: mechanically derived `requires impossible / ensures false` variants
        mp = P.mustpanic_check(g)
        if mp["tools"] or mp["problems"]:
            raise P.Undecided("must-panic variant could not be built: " + "; ".join(mp["problems"] + [t["message"] for t in mp["tools"]][:2]))
        for x in mp["fails"] + mp["res"]:
            x = dict(x)
            x["props"] = ["C05", "C12"]
            x["obligation"] = "must-panic variant of " + x["obligation"]
            mine.append(x)
        mp_cov = {"must_panic_variants": {"derived_for": mp["derived"], "cmd": mp["result"]["cmd"], "wall_s": round(mp["result"]["wall_s"], 2),
                                          "failed": [x["obligation"] for x in mp["fails"] + mp["res"]],
                                          "what": "each function re-verified with requires = the request is impossible and ensures false; expect/assert! "
                                                  "modelled as returning only when they do not panic; a ghost assertion that the arena is untouched "
                                                  "sits in front of each"}}
    # obligations
    per_fn = {}
    total = 0
    discharged = 0
    failed_fns = set(x["function"] for x in fails)
    for f in funcs:
        c = P.count_obligations(f)
        n = sum(c.values())
        per_fn[f["name"]] = c
        total += n
        if f["name"] not in failed_fns:
            discharged += n
    labels = []
    for f in funcs:
        for m in P.OB_RE.finditer(f["text"]):
            lp = m.group(2).split()
            if not lp or pid in lp:
                labels.append("%s: %s" % (f["name"], m.group(1)))
    scan = assumption_scan(g["gen_text"])
    ext_unverified = sorted(set(f["name"] for f in gi.funcs if f["external_body"] and f["mode"] == "exec"))
    solver_s = sum(v["time_us"] for k, v in fb.items()) / 1e6
    transplanted = {k: v for k, v in g["splice"]["functions"].items() if v["status"] != "exact"}
    thorough_extra = {}
    if tier == "thorough":
        thorough_extra = thorough(pid, g, gi, funcs, notes)
        if thorough_extra.get("unstable"):
            raise P.Undecided("proof unstable under a different solver seed/rlimit: " + ", ".join(thorough_extra["unstable"]))
        mine += thorough_extra.get("failures", [])
    # ---- witness step: only when the verifier has failed something on this tree
    any_fail = fails + undischarged + [{"obligation": "function %s could not be verified against its contract" % q} for q in lost]
    any_fail += [{"obligation": "function %s of /repo has no contract" % q} for q in g["splice"].get("uncontracted", []) if q not in lost]
    witness = None
    explore_cov = {}
    weak_only = False
    if any_fail or mine or tier == "thorough":
        # (thorough tier: the bounded exploration also runs when every obligation is discharged, as a check of what the
        # contracts take on trust: derive semantics, std specs, code outside the verified text)
        ex = P.explore(seed=seed or 1, budget_ms=12000 if tier == "quick" else 60000)
        explore_cov = {"witness_search": {"what": "bounded exploration of the real crate through its public API (tools/replay): every sequence of up to 3 "
                                                  "structural operations on 2-4 nodes, generation-counter scenarios, random walks; one executable oracle "
                                                  "per property; run because the verifier failed an obligation (or unconditionally in the thorough tier); labelled bounded, never counted as proof",
                                          "runs": ex["runs"], "wall_s": ex.get("wall_s"),
                                          "witnesses_found_for": sorted(set(p for vv in ex["violations"] for p in vv["props"]))}}
        for vv in ex["violations"]:
            if pid in vv["props"]:
                witness = vv
                break
    # known findings
    violations = []
    for x in mine:
        kf = [k for k in known.get("findings", []) if k["property"] == pid and k["obligation"] == x["obligation"]]
        if kf:
            print("KNOWN-FINDING: property=%s %s" % (pid, kf[0]["what"]))
        else:
            violations.append(x)
    specific = [x for x in violations if x.get("specific")]
    replay_paths = []
    report = []
    if witness:
        # a concrete failing input, replayed against the real code
        pth = write_witness_replay(pid, witness, [x["obligation"] for x in any_fail])
        first = (specific or violations or any_fail or [{"obligation": "every obligation is discharged: the failing input concerns what the contracts take on trust "
                                                                       "(trusted base, code outside the verified text)"}])[0]
        report = [({"obligation": first["obligation"]}, pth, True)]
    elif specific:
        report = [(x, write_replay(pid, n, x), False) for n, x in enumerate(specific)]
    elif violations or any(pid in pr for pr in lost.values()):
        weak_only = True
    violations = [r[0] for r in report]
    replay_paths = [r[1] for r in report]
    has_witness = bool(witness)
    ev = {
        "property_id": pid,
        "tier": tier,
        "seed": seed,
        "level": "proof",
        "coverage": {
            "obligations": total,
            "discharged": discharged if not violations else min(discharged, total - 1),
            "checker_cmd": r["cmd"],
            "trusted_base": TRUSTED_COMMON + PROP_TRUST.get(pid, []),
            "explanation": PROP_EXPLAIN.get(pid, ""),
            "back_end": "Verus 0.2026.09.13 / Z3 (single generated file, all functions, unbounded)",
            "functions_under_contract": sorted(f["name"] for f in funcs if f["mode"] == "exec"),
            "ghost_lemmas_serving_the_property": sorted(f["name"] for f in funcs if f["mode"] == "proof"),
            "obligation_count_rule": "per function of the generated file: ensures/invariant/decreases clauses + ghost assertions + panic sites "
                                     "(assert!/debug_assert*/unreachable!/expect/unwrap) + index sites; a function counts as discharged only if "
                                     "Verus reports no failed obligation in it",
            "obligations_per_function": per_fn,
            "labelled_obligations": labels,
            "samples": labels[:12] if labels else sorted(fnames)[:12],
            "solver_time_s": round(solver_s, 2),
            "verus_wall_s": round(r["wall_s"], 2),
            "verus_summary": (r["summary"] or {}).get("verification-results"),
            "vacuity_probe": {"functions_probed": probed, "unreachable": vac, "wall_s": round(vr["wall_s"], 2)},
            "extraction": {
                "functions_extracted": len([i for i in g["extraction"]["items"] if i["key"].startswith("fn ")]),
                "dropped_items": g["extraction"]["dropped_items"],
                "dropped_attributes_and_derives": g["extraction"]["dropped_attributes_and_derives"],
                "whole_files_outside": g["extraction"]["whole_files_outside"],
                "rewrites_fired": rewrite_totals(g["extraction"]),
            },
            "splice": {"exact": len(g["splice"]["functions"]) - len(transplanted), "transplanted": transplanted},
            "assumption_scan": scan,
            "functions_not_under_contract": ext_unverified,
            "failed_obligations": [x["obligation"] for x in mine],
            "notes": notes,
        },
        "assumptions": TRUSTED_COMMON + PROP_TRUST.get(pid, []),
        "wall_s": round(time.time() - t0, 2),
        "violations": len(violations),
    }
    ev["coverage"].update(thorough_extra.get("coverage", {}))
    ev["coverage"].update(mp_cov)
    ev["coverage"].update(kani_cov)
    ev["coverage"].update(explore_cov)
    os.makedirs(EVID, exist_ok=True)
    json.dump(ev, open(os.path.join(EVID, pid + ".json"), "w"), indent=1)
    if violations:
        for x, pth in zip(violations, replay_paths):
            print("failed obligation: %s" % x["obligation"])
            if has_witness:
                print("failing input: %s  -> %s" % (witness["ops"], witness["msg"]))
                print("VIOLATION property=%s replay=%s" % (pid, pth))
            else:
                print("VIOLATION property=%s replay=%s no-failing-input-found" % (pid, pth))
        return 1
    if weak_only:
        print("UNDECIDED property=%s: the proof of a function that carries obligations of %s no longer goes through (%s), but no obligation written "
              "from this property failed and the bounded witness search found no input violating it" % (
                  pid, pid, "; ".join(sorted(set(x["obligation"] for x in mine))[:3])))
        return 2
    print("%s: %d obligations in %d functions and lemmas discharged by Verus (%.1fs solver, %s)" % (
        pid, total, len(funcs), solver_s, "cached" if r.get("cached") else "%.1fs wall" % r["wall_s"]))
    return 0


def load_baseline():
    p = os.path.join(VERIF, "contracts", "baseline.json")
    if os.path.exists(p):
        return json.load(open(p))
    return {"functions": {}}


def outside_hashes(g):
    """token hashes of the items the extraction drops (they are outside the verified text)"""
    out = {}
    for d in g["extraction"]["dropped_items"]:
        if " #" in d:
            k, h = d.rsplit(" #", 1)
            out[k] = h
    return out


# dropped items that a property statement mentions: a change there cannot be decided by the verifier; it is
# handed to the witness step (and stays undecided if that finds nothing)
OUTSIDE_WATCH = {"id.rs: impl Display for NodeId": ["C11"]}


def fn_hashes(g):
    out = {}
    for it in g["extraction"]["items"]:
        k = it["key"]
        if k.startswith("fn "):
            k = k[3:]
            m = re.match(r"<(\w+) as (\w+)(<.*>)?>::(\w+)", k)
            if m:
                k = "%s::%s" % (m.group(1), m.group(4))
            out.setdefault(k, []).append(it["src_hash"])
    return out


def changed_functions(g, base):
    """functions whose source in /repo differs from the source the baseline was discharged on"""
    cur = fn_hashes(g)
    ch = set()
    for name, st in g["splice"]["functions"].items():
        short = name
        if st["status"] != "exact":
            ch.add(name)
    for k, hs in cur.items():
        if sorted(base.get("functions", {}).get(k, {}).get("src_hash", [])) != sorted(hs):
            ch.add(k)
    return ch


def write_baseline():
    g = P.generate()
    gi = P.GenIndex(g["gen_text"])
    r = P.run_verus(g["gen_path"], g["gen_text"], label="main")
    fails, tools, res = P.obligations_from(r, gi)
    if fails or tools or res:
        print("baseline refused: the current tree does not verify cleanly")
        return 2
    fb = P.function_breakdown(r)
    hs = fn_hashes(g)
    out = {"functions": {}}
    for k, v in hs.items():
        out["functions"][k] = {"src_hash": sorted(v)}
    for f in gi.funcs:
        if f["mode"] != "spec" and not f["external_body"]:
            key = [k for k in fb if k.endswith("::" + f["name"])]
            out["functions"].setdefault(f["name"], {}).update({"discharged": True, "rlimit": fb[key[0]]["rlimit"] if key else None})
    out["outside"] = outside_hashes(g)
    json.dump(out, open(os.path.join(VERIF, "contracts", "baseline.json"), "w"), indent=1, sort_keys=True)
    print("baseline written: %d functions" % len(out["functions"]))
    return 0


def gi_mode(gi, name):
    for f in gi.funcs:
        if f["name"] == name:
            return f["mode"]
    return None


def rewrite_totals(ext):
    tot = {}
    for it in ext["items"]:
        for k, v in it.get("rewrites", {}).items():
            tot[k] = tot.get(k, 0) + v
    return tot


def thorough(pid, g, gi, funcs, notes):
    """extra runs of the thorough tier: proof stability under another seed and budget"""
    out = {"coverage": {}}
    r3 = P.run_verus(g["gen_path"], g["gen_text"], extra=["--rlimit", "30", "--smt-option", "smt.random_seed=7"], label="seed7")
    fails3, tools3, res3 = P.obligations_from(r3, gi)
    names = set(f["name"] for f in funcs)
    bad = sorted(set(x["function"] for x in fails3 + res3 if x["function"] in names or gi_mode(gi, x["function"]) == "proof"))
    out["coverage"]["stability_run"] = {"cmd": r3["cmd"], "wall_s": round(r3["wall_s"], 2), "functions_failing": bad}
    if bad:
        out["unstable"] = bad
    return out


PROP_TRUST = {}
PROP_EXPLAIN = {}


def main(argv):
    if len(argv) < 2:
        print(__doc__)
        return 2
    if argv[1] == "--write-baseline":
        return write_baseline()
    if argv[1] == "--replay":
        txt = open(argv[2]).read()
        m = re.search(r"^witness ops: (.*)$", txt, re.M)
        d = re.search(r"^differential: features \{(.*?)\} vs \{(.*?)\}; operations: (.*)$", txt, re.M)
        if d:
            fa = tuple(x for x in d.group(1).split(",") if x)
            fb = tuple(x for x in d.group(2).split(",") if x)
            ta = P.digest(fa, transcript_ops=d.group(3))
            tb = P.digest(fb, transcript_ops=d.group(3))
            print("features {%s}:\n%s\nfeatures {%s}:\n%s" % (",".join(fa), "\n".join(ta), ",".join(fb), "\n".join(tb)))
            print("DIFFERENT" if ta != tb else "identical")
            return 1 if ta != tb else 0
        if not m:
            print(txt)
            print("(this replay file carries the verifier's output only: no failing input was found)")
            return 0
        ex = P.explore(replay_ops=m.group(1))
        print(json.dumps(ex, indent=1))
        return 1 if ex["violations"] else 0
    pid = argv[1]
    tier = os.environ.get("VERIF_TIER", "quick")
    if "--tier" in argv:
        tier = argv[argv.index("--tier") + 1]
    if tier not in ("quick", "thorough"):
        tier = "quick"
    try:
        seed = int(os.environ.get("VERIF_SEED", "0"))
    except ValueError:
        seed = 0
    try:
        return decide(pid, tier, seed)
    except P.Undecided as e:
        print("UNDECIDED property=%s: %s" % (pid, e))
        return 2
