//! vx-extract: mechanical extraction of indextree's real functions into one flat, plain-Rust
//! file that the splicer then decorates with Verus contracts.
//!
//! What it does (and nothing else): see DESIGN.md §2.1.  Every transformation is either a
//! *drop* (listed in the report) or one of the rewrite rules R1..R4 applied uniformly by
//! syntactic shape; no function body is special-cased.  Anything it does not understand makes
//! it exit with status 2 (undecided), never with a wrong answer.

use proc_macro2::{Span, TokenStream, TokenTree};
use quote::{quote, ToTokens};
use std::collections::{BTreeMap, BTreeSet, HashMap};
use std::process::exit;
use syn::punctuated::Punctuated;
use syn::visit_mut::{self, VisitMut};
use syn::*;

thread_local! {
    /// set while one function body is being rewritten: an unsupported construct then gives up on that
    /// body only (it is emitted unrewritten and reported), not on the whole extraction
    static IN_FN_BODY: std::cell::Cell<bool> = std::cell::Cell::new(false);
}

struct Unsupported(String);

fn die(msg: &str) -> ! {
    if IN_FN_BODY.with(|c| c.get()) {
        std::panic::panic_any(Unsupported(msg.to_string()));
    }
    eprintln!("vx-extract: UNSUPPORTED: {}", msg);
    exit(2)
}

// ---------------------------------------------------------------- cfg evaluation

struct Cfg {
    features: BTreeSet<String>,
}

impl Cfg {
    fn eval_meta(&self, m: &Meta) -> bool {
        match m {
            Meta::Path(p) => {
                let s = p.to_token_stream().to_string();
                match s.as_str() {
                    "test" => false,
                    "debug_assertions" => true,
                    "kani" => false,
                    _ => die(&format!("cfg predicate `{}`", s)),
                }
            }
            Meta::NameValue(nv) => {
                let name = nv.path.to_token_stream().to_string();
                if name != "feature" {
                    die(&format!("cfg key `{}`", name));
                }
                let v = match &nv.value {
                    Expr::Lit(ExprLit { lit: Lit::Str(s), .. }) => s.value(),
                    _ => die("cfg feature value"),
                };
                self.features.contains(&v)
            }
            Meta::List(l) => {
                let name = l.path.to_token_stream().to_string();
                let inner: Punctuated<Meta, Token![,]> = l
                    .parse_args_with(Punctuated::parse_terminated)
                    .unwrap_or_else(|_| die("cfg list"));
                match name.as_str() {
                    "not" => !self.eval_meta(inner.first().unwrap_or_else(|| die("cfg not()"))),
                    "all" => inner.iter().all(|m| self.eval_meta(m)),
                    "any" => inner.iter().any(|m| self.eval_meta(m)),
                    _ => die(&format!("cfg combinator `{}`", name)),
                }
            }
        }
    }

    /// true if the item survives its #[cfg(..)] attributes
    fn keep(&self, attrs: &[Attribute]) -> bool {
        for a in attrs {
            if a.path().is_ident("cfg") {
                let m: Meta = a.parse_args().unwrap_or_else(|_| die("cfg attr"));
                if !self.eval_meta(&m) {
                    return false;
                }
            }
        }
        true
    }
}

// ---------------------------------------------------------------- attribute filtering

const KEPT_DERIVES: &[&str] = &["Copy", "Clone", "PartialEq", "Eq", "Default", "Debug"];

fn filter_type_attrs(attrs: &mut Vec<Attribute>, dropped: &mut BTreeSet<String>) {
    let mut out = Vec::new();
    for a in attrs.drain(..) {
        if a.path().is_ident("derive") {
            let list: Punctuated<Path, Token![,]> = a
                .parse_args_with(Punctuated::parse_terminated)
                .unwrap_or_else(|_| die("derive list"));
            let mut kept: Vec<Path> = Vec::new();
            for p in list {
                let n = p.segments.last().unwrap().ident.to_string();
                if KEPT_DERIVES.contains(&n.as_str()) {
                    kept.push(p);
                } else {
                    dropped.insert(format!("derive({})", n));
                }
            }
            if !kept.is_empty() {
                out.push(parse_quote!(#[derive(#(#kept),*)]));
            }
        } else {
            dropped.insert(format!("attribute #[{}]", a.path().to_token_stream()));
        }
    }
    *attrs = out;
}

fn strip_all_attrs(attrs: &mut Vec<Attribute>, dropped: &mut BTreeSet<String>) {
    for a in attrs.drain(..) {
        let n = a.path().to_token_stream().to_string();
        if n != "doc" {
            dropped.insert(format!("attribute #[{}]", n));
        }
    }
}

// ---------------------------------------------------------------- expression rewriting

struct Rewriter {
    fired: Vec<String>,
    fresh: usize,
    item_types: HashMap<String, Type>, // Self type -> Iterator::Item
    self_ty: String,
}

fn closure_of(e: &Expr) -> Option<&ExprClosure> {
    match e {
        Expr::Closure(c) => Some(c),
        Expr::Paren(p) => closure_of(&p.expr),
        _ => None,
    }
}

fn single_pat(c: &ExprClosure) -> Pat {
    if c.inputs.len() != 1 {
        die("closure with != 1 parameter in an Option/Iterator combinator");
    }
    match c.inputs.first().unwrap() {
        Pat::Type(pt) => (*pt.pat).clone(),
        p => p.clone(),
    }
}

fn is_place(e: &Expr) -> bool {
    match e {
        Expr::Path(_) => true,
        Expr::Field(f) => is_place(&f.base),
        Expr::Paren(p) => is_place(&p.expr),
        _ => false,
    }
}

/// `D` of map_or(D, ..) must be evaluation-order insensitive: literal / path / tuple of such
fn is_simple_value(e: &Expr) -> bool {
    match e {
        Expr::Lit(_) | Expr::Path(_) => true,
        Expr::Tuple(t) => t.elems.iter().all(is_simple_value),
        Expr::Paren(p) => is_simple_value(&p.expr),
        _ => false,
    }
}

impl Rewriter {
    fn fresh(&mut self, base: &str) -> Ident {
        self.fresh += 1;
        Ident::new(&format!("__vx_{}{}", base, self.fresh), Span::call_site())
    }

    fn rewrite_method_call(&mut self, mc: &ExprMethodCall) -> Option<Expr> {
        let name = mc.method.to_string();
        let recv = &mc.receiver;
        let args: Vec<&Expr> = mc.args.iter().collect();
        match (name.as_str(), args.len()) {
            ("map", 1) => {
                if let Some(c) = closure_of(args[0]) {
                    let p = single_pat(c);
                    let b = &c.body;
                    self.fired.push("R1:map".into());
                    Some(parse_quote!(match #recv { Some(#p) => Some(#b), None => None }))
                } else if let Expr::Path(ctor) = args[0] {
                    let v = self.fresh("v");
                    self.fired.push("R1:map(path)".into());
                    Some(parse_quote!(match #recv { Some(#v) => Some(#ctor(#v)), None => None }))
                } else {
                    die("Option::map with a non-closure, non-path argument")
                }
            }
            ("map_or", 2) => {
                let c = closure_of(args[1]).unwrap_or_else(|| die("map_or without closure literal"));
                if !is_simple_value(args[0]) {
                    die("map_or default is not a literal/path/tuple");
                }
                let p = single_pat(c);
                let b = &c.body;
                let d = args[0];
                self.fired.push("R1:map_or".into());
                Some(parse_quote!(match #recv { Some(#p) => #b, None => #d }))
            }
            ("is_some_and", 1) => {
                let c = closure_of(args[0]).unwrap_or_else(|| die("is_some_and without closure literal"));
                let p = single_pat(c);
                let b = &c.body;
                self.fired.push("R1:is_some_and".into());
                Some(parse_quote!(match #recv { Some(#p) => #b, None => false }))
            }
            ("and_then", 1) => {
                let c = closure_of(args[0]).unwrap_or_else(|| die("and_then without closure literal"));
                let p = single_pat(c);
                let b = &c.body;
                self.fired.push("R1:and_then".into());
                Some(parse_quote!(match #recv { Some(#p) => #b, None => None }))
            }
            ("or_else", 1) => {
                let c = closure_of(args[0]).unwrap_or_else(|| die("or_else without closure literal"));
                if !c.inputs.is_empty() {
                    die("or_else closure with parameters");
                }
                let b = &c.body;
                let v = self.fresh("v");
                self.fired.push("R1:or_else".into());
                Some(parse_quote!(match #recv { Some(#v) => Some(#v), None => #b }))
            }
            ("filter", 1) => {
                let c = closure_of(args[0]).unwrap_or_else(|| die("filter without closure literal"));
                let p = single_pat(c);
                let b = &c.body;
                let v = self.fresh("v");
                self.fired.push("R1:filter".into());
                Some(parse_quote!(match #recv {
                    Some(#v) => {
                        let #p = &#v;
                        if #b { Some(#v) } else { None }
                    }
                    None => None
                }))
            }
            ("any", 1) => {
                let c = closure_of(args[0]).unwrap_or_else(|| die("any without closure literal"));
                let p = single_pat(c);
                let b = &c.body;
                let it = self.fresh("iter");
                let r = self.fresh("any");
                self.fired.push("R2:any".into());
                Some(parse_quote!({
                    let mut #it = #recv;
                    let mut #r = false;
                    while let Some(#p) = #it.next() {
                        if #b {
                            #r = true;
                            break;
                        }
                    }
                    #r
                }))
            }
            ("find_map", 1) => {
                let c = closure_of(args[0]).unwrap_or_else(|| die("find_map without closure literal"));
                let p = single_pat(c);
                let b = &c.body;
                let r = self.fresh("found");
                let m = self.fresh("m");
                self.fired.push("R2:find_map".into());
                if is_place(recv) {
                    Some(parse_quote!({
                        let mut #r = None;
                        while let Some(#p) = #recv.next() {
                            let #m = #b;
                            if #m.is_some() {
                                #r = #m;
                                break;
                            }
                        }
                        #r
                    }))
                } else {
                    die("find_map on a non-place receiver")
                }
            }
            ("skip", _) | ("find", _) | ("all", _) | ("fold", _) | ("for_each", _) | ("position", _)
            | ("take_while", _) | ("skip_while", _) | ("collect", _) | ("rev", _)
            | ("unwrap_or_else", _) | ("map_or_else", _) | ("ok_or_else", _) | ("zip", _) | ("chain", _) => {
                die(&format!("iterator/Option adapter `.{}()` has no rewrite rule", name))
            }
            _ => None,
        }
    }
}

/// R4: `let f: fn(A) -> B = |p| E; ... f(X)` => `{ let p = X; E }`
struct FnPtrInliner<'a> {
    defs: &'a HashMap<String, ExprClosure>,
    fired: &'a mut Vec<String>,
}

impl<'a> VisitMut for FnPtrInliner<'a> {
    fn visit_expr_mut(&mut self, e: &mut Expr) {
        visit_mut::visit_expr_mut(self, e);
        if let Expr::Call(call) = e {
            if let Expr::Path(p) = &*call.func {
                if let Some(id) = p.path.get_ident() {
                    if let Some(c) = self.defs.get(&id.to_string()) {
                        if c.inputs.len() != call.args.len() {
                            die("fn-pointer closure arity mismatch");
                        }
                        let mut lets: Vec<Stmt> = Vec::new();
                        for (pat, arg) in c.inputs.iter().zip(call.args.iter()) {
                            let pat = match pat {
                                Pat::Type(pt) => (*pt.pat).clone(),
                                p => p.clone(),
                            };
                            // `let x = x;` is a no-op rebinding: skip it
                            let same = match (&pat, arg) {
                                (Pat::Ident(pi), Expr::Path(ap)) => {
                                    ap.path.get_ident().map(|i| i == &pi.ident).unwrap_or(false)
                                        && pi.by_ref.is_none()
                                        && pi.mutability.is_none()
                                }
                                _ => false,
                            };
                            if !same {
                                lets.push(parse_quote!(let #pat = #arg;));
                            }
                        }
                        let body = &c.body;
                        self.fired.push("R4:inline-fn-pointer-closure".into());
                        *e = if lets.is_empty() {
                            match &**body {
                                Expr::Block(_) => (**body).clone(),
                                _ => parse_quote!({ #body }),
                            }
                        } else {
                            parse_quote!({ #(#lets)* #body })
                        };
                    }
                }
            }
        }
    }
}

impl VisitMut for Rewriter {
    fn visit_block_mut(&mut self, b: &mut Block) {
        // R4 first (so that the inlined closure bodies are then seen by R1/R2)
        let mut defs: HashMap<String, ExprClosure> = HashMap::new();
        let mut kept: Vec<Stmt> = Vec::new();
        for s in b.stmts.drain(..) {
            let mut is_def = false;
            if let Stmt::Local(l) = &s {
                if let Pat::Type(pt) = &l.pat {
                    if let (Pat::Ident(pi), Type::BareFn(_)) = (&*pt.pat, &*pt.ty) {
                        if let Some(init) = &l.init {
                            if let Some(c) = closure_of(&init.expr) {
                                defs.insert(pi.ident.to_string(), c.clone());
                                is_def = true;
                            } else {
                                die("fn-pointer typed local not initialised by a closure literal");
                            }
                        }
                    }
                }
            }
            if !is_def {
                kept.push(s);
            }
        }
        b.stmts = kept;
        if !defs.is_empty() {
            let mut inl = FnPtrInliner { defs: &defs, fired: &mut self.fired };
            for s in b.stmts.iter_mut() {
                inl.visit_stmt_mut(s);
            }
        }
        visit_mut::visit_block_mut(self, b);
    }

    fn visit_expr_mut(&mut self, e: &mut Expr) {
        visit_mut::visit_expr_mut(self, e);
        let new = match e {
            Expr::MethodCall(mc) => self.rewrite_method_call(mc),
            Expr::Closure(_) => None, // closures that survive are reported below
            _ => None,
        };
        if let Some(n) = new {
            *e = n;
        }
    }

    fn visit_macro_mut(&mut self, m: &mut Macro) {
        // the arguments of the assertion macros are expressions: rewrite inside them as well
        let name = m.path.segments.last().map(|s| s.ident.to_string()).unwrap_or_default();
        if ASSERT_MACROS.contains(&name.as_str()) {
            let parsed: Result<Punctuated<Expr, Token![,]>> = m.parse_body_with(Punctuated::parse_terminated);
            match parsed {
                Ok(mut exprs) => {
                    for e in exprs.iter_mut() {
                        self.visit_expr_mut(e);
                    }
                    m.tokens = exprs.to_token_stream();
                }
                Err(_) => die(&format!("cannot parse the arguments of {}!", name)),
            }
        } else if !PASS_MACROS.contains(&name.as_str()) {
            die(&format!("macro `{}!` in a function body", name));
        }
    }

    fn visit_path_mut(&mut self, p: &mut Path) {
        // crate::module::item -> item (the output is one flat module)
        if p.segments.len() >= 2 && p.segments[0].ident == "crate" {
            let last = p.segments.last().unwrap().clone();
            let mut segs = Punctuated::new();
            segs.push(last);
            p.leading_colon = None;
            p.segments = segs;
            self.fired.push("flatten-path".into());
        }
        visit_mut::visit_path_mut(self, p);
    }

    fn visit_type_mut(&mut self, t: &mut Type) {
        if let Type::Path(tp) = t {
            if tp.qself.is_none()
                && tp.path.segments.len() == 2
                && tp.path.segments[0].ident == "Self"
                && tp.path.segments[1].ident == "Item"
            {
                if let Some(it) = self.item_types.get(&self.self_ty) {
                    *t = it.clone();
                    self.fired.push("R3:Self::Item".into());
                    return;
                } else {
                    die("Self::Item with unknown Iterator impl");
                }
            }
        }
        visit_mut::visit_type_mut(self, t);
    }
}

const ASSERT_MACROS: &[&str] = &[
    "assert", "assert_eq", "assert_ne", "debug_assert", "debug_assert_eq", "debug_assert_ne", "debug_assert_triangle_nodes",
];
const PASS_MACROS: &[&str] = &["matches", "unreachable", "cfg"];

struct ClosureFinder {
    found: bool,
}
impl<'ast> syn::visit::Visit<'ast> for ClosureFinder {
    fn visit_expr_closure(&mut self, _c: &'ast ExprClosure) {
        self.found = true;
    }
    fn visit_macro(&mut self, m: &'ast Macro) {
        let parsed: Result<Punctuated<Expr, Token![,]>> = m.parse_body_with(Punctuated::parse_terminated);
        if let Ok(exprs) = parsed {
            for e in exprs.iter() {
                self.visit_expr(e);
            }
        }
    }
}

// ---------------------------------------------------------------- driver

struct Out {
    items: Vec<Item>,
    report: Vec<serde_json::Value>,
    dropped: BTreeSet<String>,
    dropped_items: Vec<String>,
    refold: Vec<(String, String)>,
}

// hand-written impls of these traits are outside the verified text (their token hash is reported; for the
// comparison/clone traits the contracts assume the *derived* meaning, and a type that no longer derives them
// is reported by the splicer)
const DROP_TRAIT_IMPLS: &[&str] = &["Display", "Error", "FusedIterator", "Debug", "Clone", "Hash", "PartialEq", "Eq", "PartialOrd", "Ord", "Copy"];
const TO_INHERENT: &[&str] = &["Iterator", "DoubleEndedIterator"];
// (self type, fn) pairs that are outside the claim; see DESIGN.md §2.1
const DROP_FNS: &[(&str, &str)] = &[("NodeId", "debug_pretty_print"), ("Arena", "par_iter"), ("NodeError", "as_str")];

fn self_ty_name(t: &Type) -> String {
    match t {
        Type::Path(tp) => tp.path.segments.last().unwrap().ident.to_string(),
        _ => t.to_token_stream().to_string(),
    }
}

fn hash_tokens(ts: &TokenStream) -> String {
    // FNV-1a over the token text: stable, dependency-free
    let s = ts.to_string();
    let mut h: u64 = 0xcbf29ce484222325;
    for b in s.bytes() {
        h ^= b as u64;
        h = h.wrapping_mul(0x100000001b3);
    }
    format!("{:016x}", h)
}

fn fix_macro_paths(ts: TokenStream) -> TokenStream {
    // inside macro_rules bodies: `crate :: relations :: f` -> `f`
    let toks: Vec<TokenTree> = ts.into_iter().collect();
    let mut out: Vec<TokenTree> = Vec::new();
    let mut i = 0;
    while i < toks.len() {
        match &toks[i] {
            TokenTree::Ident(id) if id == "crate" => {
                // skip `crate :: a :: b ::` up to the last segment
                let mut j = i;
                let mut last_ident = None;
                loop {
                    // expect ident at j
                    if let Some(TokenTree::Ident(x)) = toks.get(j) {
                        last_ident = Some(x.clone());
                    } else {
                        break;
                    }
                    let c1 = matches!(toks.get(j + 1), Some(TokenTree::Punct(p)) if p.as_char() == ':');
                    let c2 = matches!(toks.get(j + 2), Some(TokenTree::Punct(p)) if p.as_char() == ':');
                    if c1 && c2 {
                        j += 3;
                    } else {
                        break;
                    }
                }
                out.push(TokenTree::Ident(last_ident.unwrap()));
                i = j + 1;
            }
            TokenTree::Group(g) => {
                let inner = fix_macro_paths(g.stream());
                let mut ng = proc_macro2::Group::new(g.delimiter(), inner);
                ng.set_span(g.span());
                out.push(TokenTree::Group(ng));
                i += 1;
            }
            t => {
                out.push(t.clone());
                i += 1;
            }
        }
    }
    out.into_iter().collect()
}

// ---------------------------------------------------------------- cfg inside function bodies

/// Evaluates `#[cfg(..)]` on statements, expressions, match arms and struct-literal fields of a function
/// body for the feature set of this extraction: what is configured out is removed, the attribute of what
/// stays is removed.  (Without this the generated file would be compiled with no feature at all.)
struct CfgStrip<'a> {
    cfg: &'a Cfg,
    fired: usize,
}

fn expr_attrs(e: &mut Expr) -> Option<&mut Vec<Attribute>> {
    Some(match e {
        Expr::Array(x) => &mut x.attrs,
        Expr::Assign(x) => &mut x.attrs,
        Expr::Async(x) => &mut x.attrs,
        Expr::Await(x) => &mut x.attrs,
        Expr::Binary(x) => &mut x.attrs,
        Expr::Block(x) => &mut x.attrs,
        Expr::Break(x) => &mut x.attrs,
        Expr::Call(x) => &mut x.attrs,
        Expr::Cast(x) => &mut x.attrs,
        Expr::Closure(x) => &mut x.attrs,
        Expr::Const(x) => &mut x.attrs,
        Expr::Continue(x) => &mut x.attrs,
        Expr::Field(x) => &mut x.attrs,
        Expr::ForLoop(x) => &mut x.attrs,
        Expr::Group(x) => &mut x.attrs,
        Expr::If(x) => &mut x.attrs,
        Expr::Index(x) => &mut x.attrs,
        Expr::Infer(x) => &mut x.attrs,
        Expr::Let(x) => &mut x.attrs,
        Expr::Lit(x) => &mut x.attrs,
        Expr::Loop(x) => &mut x.attrs,
        Expr::Macro(x) => &mut x.attrs,
        Expr::Match(x) => &mut x.attrs,
        Expr::MethodCall(x) => &mut x.attrs,
        Expr::Paren(x) => &mut x.attrs,
        Expr::Path(x) => &mut x.attrs,
        Expr::Range(x) => &mut x.attrs,
        Expr::Reference(x) => &mut x.attrs,
        Expr::Repeat(x) => &mut x.attrs,
        Expr::Return(x) => &mut x.attrs,
        Expr::Struct(x) => &mut x.attrs,
        Expr::Try(x) => &mut x.attrs,
        Expr::TryBlock(x) => &mut x.attrs,
        Expr::Tuple(x) => &mut x.attrs,
        Expr::Unary(x) => &mut x.attrs,
        Expr::Unsafe(x) => &mut x.attrs,
        Expr::While(x) => &mut x.attrs,
        Expr::Yield(x) => &mut x.attrs,
        _ => return None,
    })
}

impl<'a> CfgStrip<'a> {
    fn has_cfg(attrs: &[Attribute]) -> bool {
        attrs.iter().any(|a| a.path().is_ident("cfg") || a.path().is_ident("cfg_attr"))
    }
    /// true if the thing stays; removes its cfg attributes then
    fn decide(&mut self, attrs: &mut Vec<Attribute>) -> bool {
        if !Self::has_cfg(attrs) {
            return true;
        }
        if attrs.iter().any(|a| a.path().is_ident("cfg_attr")) {
            die("cfg_attr inside a function body");
        }
        self.fired += 1;
        if !self.cfg.keep(attrs) {
            return false;
        }
        attrs.retain(|a| !a.path().is_ident("cfg"));
        true
    }
}

impl<'a> VisitMut for CfgStrip<'a> {
    fn visit_block_mut(&mut self, b: &mut Block) {
        let stmts = std::mem::take(&mut b.stmts);
        for mut st in stmts {
            let keep = match &mut st {
                Stmt::Local(l) => self.decide(&mut l.attrs),
                Stmt::Expr(e, _) => match expr_attrs(e) {
                    Some(a) => self.decide(a),
                    None => true,
                },
                Stmt::Macro(m) => self.decide(&mut m.attrs),
                Stmt::Item(it) => {
                    let has = match it {
                        Item::Fn(f) => Self::has_cfg(&f.attrs),
                        Item::Const(c) => Self::has_cfg(&c.attrs),
                        Item::Use(u) => Self::has_cfg(&u.attrs),
                        _ => false,
                    };
                    if has {
                        die("cfg on an item nested in a function body");
                    }
                    true
                }
            };
            if keep {
                b.stmts.push(st);
            }
        }
        visit_mut::visit_block_mut(self, b);
    }
    fn visit_expr_match_mut(&mut self, m: &mut ExprMatch) {
        let arms = std::mem::take(&mut m.arms);
        for mut a in arms {
            if self.decide(&mut a.attrs) {
                m.arms.push(a);
            }
        }
        visit_mut::visit_expr_match_mut(self, m);
    }
    fn visit_expr_struct_mut(&mut self, st: &mut ExprStruct) {
        let fields = std::mem::take(&mut st.fields);
        for mut f in fields.into_iter() {
            if self.decide(&mut f.attrs) {
                st.fields.push(f);
            }
        }
        visit_mut::visit_expr_struct_mut(self, st);
    }
    fn visit_expr_mut(&mut self, e: &mut Expr) {
        // `cfg!(pred)` is the boolean value of the predicate for this feature set
        if let Expr::Macro(m) = e {
            if m.mac.path.is_ident("cfg") && m.mac.tokens.to_string().contains("feature") {
                let meta: Meta = m.mac.parse_body().unwrap_or_else(|_| die("cfg! argument"));
                let v = self.cfg.eval_meta(&meta);
                self.fired += 1;
                *e = if v { parse_quote!(true) } else { parse_quote!(false) };
                return;
            }
        }
        // an expression in operand position that is configured out cannot simply be removed
        if let Some(a) = expr_attrs(e) {
            if Self::has_cfg(a) {
                if !self.decide(a) {
                    die("cfg on an expression in operand position evaluates to false");
                }
            }
        }
        visit_mut::visit_expr_mut(self, e);
    }
}


/// R8: the pointer idiom "which element of this Vec is this reference" -- exactly these four statements,
/// token for token up to the names of the three locals --
///     let nodes_range = self.nodes.as_ptr_range();
///     let p = node as *const Node<T>;
///     if !nodes_range.contains(&p) { return None; }
///     let node_index = (p as usize - nodes_range.start as usize) / mem::size_of::<Node<T>>();
/// is replaced by one call of the trusted primitive `vx_slice_position` (contracts/00_prelude.rs), whose assumed
/// specification is what the four statements compute: `None` for a reference outside the buffer, otherwise the
/// index of the element the reference points to.  Any other spelling is left alone (the body then stays outside
/// Verus's reach and the function is quarantined as before).
fn r8_slice_position(block: &mut Block, fired: &mut Vec<String>) {
    // the three locals may carry any name (A: the pointer range, B: the pointer, C: the index); everything else is
    // compared token for token
    fn local_name(s: &Stmt) -> Option<String> {
        if let Stmt::Local(l) = s {
            if let Pat::Ident(pi) = &l.pat {
                if pi.by_ref.is_none() && pi.mutability.is_none() && pi.subpat.is_none() {
                    return Some(pi.ident.to_string());
                }
            }
        }
        None
    }
    if block.stmts.len() < 4 {
        return;
    }
    for i in 0..=block.stmts.len() - 4 {
        let (a, b, c) = match (local_name(&block.stmts[i]), local_name(&block.stmts[i + 1]), local_name(&block.stmts[i + 3])) {
            (Some(a), Some(b), Some(c)) => (a, b, c),
            _ => continue,
        };
        if a == b || ["self", "node", "mem", "Node", "T"].contains(&a.as_str()) || ["self", "node", "mem", "Node", "T"].contains(&b.as_str()) {
            continue;
        }
        let texts = [
            format!("let {a} = self.nodes.as_ptr_range();"),
            format!("let {b} = node as *const Node<T>;"),
            format!("if !{a}.contains(&{b}) {{ return None; }}"),
            format!("let {c} = ({b} as usize - {a}.start as usize) / mem::size_of::<Node<T>>();"),
        ];
        let pat: Vec<String> = texts
            .iter()
            .map(|t| match syn::parse_str::<Block>(&format!("{{ {} }}", t)) {
                Ok(bl) if bl.stmts.len() == 1 => bl.stmts[0].to_token_stream().to_string(),
                _ => String::new(),
            })
            .collect();
        if (0..4).all(|j| !pat[j].is_empty() && block.stmts[i + j].to_token_stream().to_string() == pat[j]) {
            let cid = Ident::new(&c, Span::call_site());
            let repl: Stmt = parse_quote! {
                let #cid = match vx_slice_position(&self.nodes, node) {
                    Some(i) => i,
                    None => return None,
                };
            };
            block.stmts.splice(i..i + 4, std::iter::once(repl));
            fired.push("R8:slice-position".into());
            return;
        }
    }
}

fn process_fn_body(
    file: &str,
    key: &str,
    line: usize,
    orig: TokenStream,
    block: &mut Block,
    sig: &mut Signature,
    rw: &mut Rewriter,
    out: &mut Out,
    cfg: &Cfg,
) {
    rw.fired.clear();
    // cfg attributes inside the body are evaluated first, also for a body that is later emitted unrewritten
    let mut cs = CfgStrip { cfg, fired: 0 };
    cs.visit_block_mut(block);
    let cfg_fired = cs.fired;
    rw.fresh = 0; // fresh names are numbered per function, so an edit elsewhere cannot shift them
    // R7: argument-position `impl Trait` is an anonymous generic parameter: name it
    let mut k = 0;
    let mut new_params: Vec<GenericParam> = Vec::new();
    for arg in sig.inputs.iter_mut() {
        if let FnArg::Typed(pt) = arg {
            if let Type::ImplTrait(it) = &*pt.ty {
                let id = Ident::new(&format!("VxI{}", k), Span::call_site());
                k += 1;
                let bounds = &it.bounds;
                new_params.push(parse_quote!(#id: #bounds));
                *pt.ty = parse_quote!(#id);
                rw.fired.push("R7:name-impl-trait-arg".into());
            }
        }
    }
    for p in new_params {
        sig.generics.params.push(p);
    }
    let r7 = rw.fired.clone();
    // the signature is rewritten first and kept even if the body has to be given up (R3: `Self::Item`)
    rw.visit_signature_mut(sig);
    let (sig0, block0) = (sig.clone(), block.clone());
    r8_slice_position(block, &mut rw.fired);
    IN_FN_BODY.with(|c| c.set(true));
    let res = std::panic::catch_unwind(std::panic::AssertUnwindSafe(|| {
        rw.visit_block_mut(block);
        let mut cf = ClosureFinder { found: false };
        syn::visit::Visit::visit_block(&mut cf, block);
        if cf.found {
            die(&format!("{}: a closure survives the rewrite rules", key));
        }
    }));
    IN_FN_BODY.with(|c| c.set(false));
    if let Err(e) = res {
        let msg = match e.downcast::<Unsupported>() {
            Ok(u) => u.0,
            Err(e) => std::panic::resume_unwind(e),
        };
        // the body is emitted exactly as written; the verifier cannot read it, so the function ends up
        // quarantined (contract kept, body assumed) and the properties it carries stay undecided
        *sig = sig0;
        *block = block0;
        rw.fired = r7.clone();
        out.report.push(serde_json::json!({
            "key": key, "file": file, "line": line, "src_hash": hash_tokens(&orig), "rewrites": {}, "unrewritten": msg,
        }));
        return;
    }
    let mut fired = rw.fired.clone();
    let _ = r7;
    fired.sort();
    let mut counts: BTreeMap<String, usize> = BTreeMap::new();
    for f in fired {
        *counts.entry(f).or_insert(0) += 1;
    }
    if cfg_fired > 0 {
        counts.insert("R0:cfg-in-body".into(), cfg_fired);
    }
    out.report.push(serde_json::json!({
        "key": key, "file": file, "line": line, "src_hash": hash_tokens(&orig), "rewrites": counts,
    }));
}

fn process_items(file: &str, items: Vec<Item>, cfg: &Cfg, rw: &mut Rewriter, out: &mut Out) {
    for item in items {
        match item {
            Item::Use(_) | Item::ExternCrate(_) => {}
            Item::Mod(m) => {
                if !cfg.keep(&m.attrs) {
                    out.dropped_items.push(format!("{}: mod {} (cfg off)", file, m.ident));
                    continue;
                }
                if let Some((_, content)) = m.content {
                    process_items(file, content, cfg, rw, out);
                }
            }
            Item::Macro(mac) => {
                let name = mac.mac.path.to_token_stream().to_string();
                if name == "macro_rules" {
                    let id = mac.ident.as_ref().map(|i| i.to_string()).unwrap_or_default();
                    if id == "new_iterator" {
                        out.dropped_items.push(format!("{}: macro_rules! new_iterator (expanded by rustc, R4)", file));
                        continue;
                    }
                    let mut mac = mac.clone();
                    mac.attrs.clear();
                    mac.mac.tokens = fix_macro_paths(mac.mac.tokens.clone());
                    out.report.push(serde_json::json!({
                        "key": format!("macro_rules!{}", id), "file": file,
                        "line": mac.ident.as_ref().map(|i| i.span().start().line).unwrap_or(0),
                        "src_hash": hash_tokens(&mac.mac.tokens), "rewrites": {"flatten-path": 1},
                    }));
                    out.items.push(Item::Macro(mac));
                } else {
                    die(&format!("{}: item macro invocation `{}!`", file, name));
                }
            }
            Item::Struct(mut s) => {
                if !cfg.keep(&s.attrs) {
                    continue;
                }
                s.attrs.retain(|a| !a.path().is_ident("cfg") && !a.path().is_ident("cfg_attr") && !a.path().is_ident("doc"));
                filter_type_attrs(&mut s.attrs, &mut out.dropped);
                s.vis = parse_quote!(pub);
                for f in s.fields.iter_mut() {
                    f.vis = parse_quote!(pub);
                    f.attrs.clear();
                }
                out.report.push(serde_json::json!({"key": format!("struct {}", s.ident), "file": file,
                    "line": s.ident.span().start().line, "src_hash": hash_tokens(&s.to_token_stream()), "rewrites": {}}));
                out.items.push(Item::Struct(s));
            }
            Item::Enum(mut e) => {
                if !cfg.keep(&e.attrs) {
                    continue;
                }
                e.attrs.retain(|a| !a.path().is_ident("cfg") && !a.path().is_ident("cfg_attr") && !a.path().is_ident("doc"));
                filter_type_attrs(&mut e.attrs, &mut out.dropped);
                e.vis = parse_quote!(pub);
                for v in e.variants.iter_mut() {
                    v.attrs.clear();
                }
                out.report.push(serde_json::json!({"key": format!("enum {}", e.ident), "file": file,
                    "line": e.ident.span().start().line, "src_hash": hash_tokens(&e.to_token_stream()), "rewrites": {}}));
                out.items.push(Item::Enum(e));
            }
            Item::Fn(mut f) => {
                if !cfg.keep(&f.attrs) {
                    continue;
                }
                if f.attrs.iter().any(|a| a.path().is_ident("test")) {
                    out.dropped_items.push(format!("{}: #[test] fn {}", file, f.sig.ident));
                    continue;
                }
                let orig = f.to_token_stream();
                strip_all_attrs(&mut f.attrs, &mut out.dropped);
                f.vis = parse_quote!(pub);
                let key = format!("fn {}", f.sig.ident);
                let line = f.sig.ident.span().start().line;
                rw.self_ty = String::new();
                process_fn_body(file, &key, line, orig, &mut f.block, &mut f.sig, rw, out, cfg);
                out.items.push(Item::Fn(f));
            }
            Item::Impl(mut im) => {
                if !cfg.keep(&im.attrs) {
                    out.dropped_items.push(format!("{}: impl {} (cfg off)", file, im.self_ty.to_token_stream()));
                    continue;
                }
                let auto = im.attrs.iter().any(|a| a.path().is_ident("automatically_derived"));
                let st = self_ty_name(&im.self_ty);
                let trait_name = im.trait_.as_ref().map(|(_, p, _)| p.segments.last().unwrap().ident.to_string());
                if auto {
                    if let Some(tn) = &trait_name {
                        if KEPT_DERIVES.contains(&tn.as_str()) {
                            // rustc expanded a derive we keep: fold it back into the attribute
                            out.refold.push((st.clone(), tn.clone()));
                            continue;
                        }
                    }
                    out.dropped_items.push(format!("{}: derived impl {} for {}", file, trait_name.clone().unwrap_or_default(), st));
                    continue;
                }
                if let Some(tn) = &trait_name {
                    if DROP_TRAIT_IMPLS.contains(&tn.as_str()) {
                        out.dropped_items.push(format!("{}: impl {} for {} #{}", file, tn, st, hash_tokens(&im.to_token_stream())));
                        continue;
                    }
                    if tn == "From" {
                        // R3b: `impl From<A> for B { fn from(v: A) -> B }` is emitted as the free function
                        // `from_A_for_B` (vstd attaches its own laws to `From::from`; the body is unchanged)
                        let a = match &im.trait_.as_ref().unwrap().1.segments.last().unwrap().arguments {
                            PathArguments::AngleBracketed(ab) => ab.args.to_token_stream().to_string().replace(' ', ""),
                            _ => die("From without type argument"),
                        };
                        // the trait impl itself stays in the file, outside verification, so that callers written
                        // as `usize::from(id)` / `id.into()` still resolve (Verus then reports them as unsupported)
                        let mut ext = im.clone();
                        ext.attrs = vec![parse_quote!(#[verifier::external])];
                        for ii in ext.items.iter_mut() {
                            if let ImplItem::Fn(f) = ii {
                                f.attrs.clear();
                            }
                        }
                        out.items.push(Item::Impl(ext));
                        for ii in im.items.drain(..) {
                            if let ImplItem::Fn(f) = ii {
                                let orig = f.to_token_stream();
                                let name = Ident::new(&format!("from_{}_for_{}", a, st), Span::call_site());
                                let mut sig = f.sig.clone();
                                sig.ident = name.clone();
                                let mut block = f.block.clone();
                                let key = format!("fn <{} as From<{}>>::from", st, a);
                                let line = f.sig.ident.span().start().line;
                                rw.self_ty = st.clone();
                                process_fn_body(file, &key, line, orig, &mut block, &mut sig, rw, out, cfg);
                                out.dropped.insert("R3b: impl From<A> for B emitted as free fn from_A_for_B".into());
                                out.items.push(Item::Fn(ItemFn { attrs: vec![], vis: parse_quote!(pub), sig, block: Box::new(block) }));
                            }
                        }
                        continue;
                    }
                    if TO_INHERENT.contains(&tn.as_str()) {
                        im.trait_ = None;
                        im.items.retain(|ii| !matches!(ii, ImplItem::Type(_)));
                        out.dropped.insert(format!("R3: impl {} for _ emitted as inherent impl", tn));
                    }
                }
                strip_all_attrs(&mut im.attrs, &mut out.dropped);
                let mut new_items = Vec::new();
                for ii in im.items.drain(..) {
                    match ii {
                        ImplItem::Fn(mut f) => {
                            if !cfg.keep(&f.attrs) {
                                continue;
                            }
                            if DROP_FNS.iter().any(|(t, n)| *t == st && f.sig.ident == n) {
                                out.dropped_items.push(format!("{}: fn {}::{} (outside the claim) #{}", file, st, f.sig.ident, hash_tokens(&f.to_token_stream())));
                                continue;
                            }
                            let orig = f.to_token_stream();
                            strip_all_attrs(&mut f.attrs, &mut out.dropped);
                            f.vis = if trait_name.is_some() && im.trait_.is_some() { Visibility::Inherited } else { parse_quote!(pub) };
                            let key = match &trait_name {
                                Some(tn) => format!("fn <{} as {}>::{}", st, tn, f.sig.ident),
                                None => format!("fn {}::{}", st, f.sig.ident),
                            };
                            let line = f.sig.ident.span().start().line;
                            rw.self_ty = st.clone();
                            process_fn_body(file, &key, line, orig, &mut f.block, &mut f.sig, rw, out, cfg);
                            new_items.push(ImplItem::Fn(f));
                        }
                        ImplItem::Type(t) => new_items.push(ImplItem::Type(t)),
                        ImplItem::Const(mut c) => {
                            strip_all_attrs(&mut c.attrs, &mut out.dropped);
                            c.vis = if trait_name.is_some() && im.trait_.is_some() { Visibility::Inherited } else { parse_quote!(pub) };
                            new_items.push(ImplItem::Const(c));
                        }
                        other => die(&format!("{}: impl item {}", file, other.to_token_stream())),
                    }
                }
                im.items = new_items;
                if !im.items.is_empty() {
                    out.items.push(Item::Impl(im));
                }
            }
            Item::Const(mut c) => {
                // a constant is emitted as written (attributes dropped, visibility normalised)
                if !cfg.keep(&c.attrs) {
                    out.dropped_items.push(format!("{}: const {} (cfg off)", file, c.ident));
                    continue;
                }
                strip_all_attrs(&mut c.attrs, &mut out.dropped);
                c.vis = parse_quote!(pub);
                out.items.push(Item::Const(c));
            }
            Item::Static(mut c) => {
                if !matches!(c.mutability, StaticMutability::None) {
                    die(&format!("{}: static mut {}", file, c.ident));
                }
                if !cfg.keep(&c.attrs) {
                    out.dropped_items.push(format!("{}: static {} (cfg off)", file, c.ident));
                    continue;
                }
                strip_all_attrs(&mut c.attrs, &mut out.dropped);
                c.vis = parse_quote!(pub);
                out.items.push(Item::Static(c));
            }
            Item::Type(mut t) => {
                if !cfg.keep(&t.attrs) {
                    out.dropped_items.push(format!("{}: type {} (cfg off)", file, t.ident));
                    continue;
                }
                strip_all_attrs(&mut t.attrs, &mut out.dropped);
                t.vis = parse_quote!(pub);
                out.items.push(Item::Type(t));
            }
            other => die(&format!("{}: item kind: {}", file, other.to_token_stream().to_string().chars().take(80).collect::<String>())),
        }
    }
}

fn collect_item_types(items: &[Item], map: &mut HashMap<String, Type>) {
    for it in items {
        match it {
            Item::Impl(im) => {
                if let Some((_, p, _)) = &im.trait_ {
                    if p.segments.last().unwrap().ident == "Iterator" {
                        for ii in &im.items {
                            if let ImplItem::Type(t) = ii {
                                if t.ident == "Item" {
                                    map.insert(self_ty_name(&im.self_ty), t.ty.clone());
                                }
                            }
                        }
                    }
                }
            }
            Item::Mod(m) => {
                if let Some((_, c)) = &m.content {
                    collect_item_types(c, map);
                }
            }
            _ => {}
        }
    }
}

fn main() {
    let default_hook = std::panic::take_hook();
    std::panic::set_hook(Box::new(move |info| {
        if info.payload().downcast_ref::<Unsupported>().is_none() {
            default_hook(info);
        }
    }));
    let args: Vec<String> = std::env::args().collect();
    let mut repo = String::from("/repo");
    let mut expanded = String::new();
    let mut features: BTreeSet<String> = BTreeSet::new();
    let mut outp = String::from("extracted.rs");
    let mut reportp = String::from("extraction_report.json");
    let mut i = 1;
    while i < args.len() {
        match args[i].as_str() {
            "--repo" => { repo = args[i + 1].clone(); i += 2; }
            "--expanded" => { expanded = args[i + 1].clone(); i += 2; }
            "--features" => {
                for f in args[i + 1].split(',') { if !f.is_empty() { features.insert(f.to_string()); } }
                i += 2;
            }
            "--out" => { outp = args[i + 1].clone(); i += 2; }
            "--report" => { reportp = args[i + 1].clone(); i += 2; }
            a => die(&format!("argument {}", a)),
        }
    }
    let cfg = Cfg { features };
    let mut out = Out { items: Vec::new(), report: Vec::new(), dropped: BTreeSet::new(), dropped_items: Vec::new(), refold: Vec::new() };
    let mut rw = Rewriter { fired: Vec::new(), fresh: 0, item_types: HashMap::new(), self_ty: String::new() };

    // traverse.rs comes from rustc's own macro expansion (R4)
    let exp_src = std::fs::read_to_string(&expanded).unwrap_or_else(|_| die("cannot read expanded file"));
    let exp: File = syn::parse_file(&exp_src).unwrap_or_else(|e| die(&format!("parse expanded: {}", e)));
    let mut traverse_items: Option<Vec<Item>> = None;
    for it in exp.items {
        if let Item::Mod(m) = it {
            if m.ident == "traverse" {
                traverse_items = m.content.map(|(_, c)| c);
            }
        }
    }
    let traverse_items = traverse_items.unwrap_or_else(|| die("no `mod traverse` in the expansion"));
    collect_item_types(&traverse_items, &mut rw.item_types);

    for f in ["error.rs", "id.rs", "node.rs", "arena.rs", "relations.rs", "siblings_range.rs"] {
        let path = format!("{}/indextree/src/{}", repo, f);
        let src = std::fs::read_to_string(&path).unwrap_or_else(|_| die(&format!("cannot read {}", path)));
        let file: File = syn::parse_file(&src).unwrap_or_else(|e| die(&format!("parse {}: {}", f, e)));
        process_items(f, file.items, &cfg, &mut rw, &mut out);
    }
    process_items("traverse.rs(expanded)", traverse_items, &cfg, &mut rw, &mut out);

    for (ty, tr) in out.refold.clone() {
        let tr_id = Ident::new(&tr, Span::call_site());
        let mut done = false;
        for it in out.items.iter_mut() {
            let (ident, attrs) = match it {
                Item::Struct(s) => (s.ident.to_string(), &mut s.attrs),
                Item::Enum(e) => (e.ident.to_string(), &mut e.attrs),
                _ => continue,
            };
            if ident == ty {
                attrs.push(parse_quote!(#[derive(#tr_id)]));
                done = true;
            }
        }
        if !done {
            die(&format!("derived impl {} for unknown type {}", tr, ty));
        }
    }
    // macro_rules definitions are textually scoped: emit them first
    let (macros, others): (Vec<Item>, Vec<Item>) = out.items.drain(..).partition(|i| matches!(i, Item::Macro(_)));
    let items: Vec<Item> = macros.into_iter().chain(others.into_iter()).collect();
    let ts = quote!(#(#items)*);
    std::fs::write(&outp, ts.to_string()).unwrap();
    let rep = serde_json::json!({
        "items": out.report,
        "dropped_attributes_and_derives": out.dropped.iter().collect::<Vec<_>>(),
        "dropped_items": out.dropped_items,
        "whole_files_outside": ["debug_pretty_print.rs", "lib.rs (module wiring and re-exports only)", "indextree-macros/*"],
    });
    std::fs::write(&reportp, serde_json::to_string_pretty(&rep).unwrap()).unwrap();
}
