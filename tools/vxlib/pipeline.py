"""Pipeline: /repo working tree -> extraction -> splice -> Verus -> obligation table."""
import hashlib
import json
import os
import re
import shutil
import subprocess
import sys
import tempfile
import time

from . import rtok, splice

VERIF = os.path.dirname(os.path.dirname(os.path.dirname(os.path.abspath(__file__))))
REPO = os.environ.get("VX_REPO", "/repo")
BUILD = os.environ.get("VX_BUILD", os.path.join(VERIF, "build"))
EXTRACT_BIN = os.path.join(VERIF, "tools", "vx-extract", "target", "release", "vx-extract")
CONTRACTS = os.path.join(VERIF, "contracts")
VERUS_ARGS = ["--multiple-errors", "200", "--num-threads", "16", "--triggers-mode", "silent"]


class Undecided(Exception):
    """tool failure / unsupported construct / lost anchor: exit 2, never an alarm"""


def sh(cmd, cwd=None, env=None, timeout=3600, check=True):
    e = dict(os.environ)
    e.update({"CARGO_NET_OFFLINE": "true"})
    if env:
        e.update(env)
    p = subprocess.run(cmd, cwd=cwd, env=e, stdout=subprocess.PIPE, stderr=subprocess.PIPE, text=True, timeout=timeout)
    if check and p.returncode != 0:
        raise Undecided("command failed (%d): %s\n%s" % (p.returncode, " ".join(cmd), p.stderr[-4000:]))
    return p


def sha(s):
    return hashlib.sha256(s.encode() if isinstance(s, str) else s).hexdigest()


def verus_version():
    p = sh(["verus", "--version"], check=False)
    m = re.search(r"Version:\s*(\S+)", p.stdout)
    return m.group(1) if m else "unknown"


def extract(features=("std",), tag="std"):
    """expand + extract + rustfmt; returns (extracted_text, extraction_report)"""
    os.makedirs(BUILD, exist_ok=True)
    scratch = tempfile.mkdtemp(prefix="vx.", dir="/var/tmp")
    try:
        feat = ",".join(features)
        cmd = ["cargo", "+nightly", "rustc", "--offline", "-p", "indextree", "--lib", "--no-default-features"]
        if feat:
            cmd += ["--features", feat]
        # dependency artefacts (serde, rayon, the proc-macro crate) are shared between runs; the crate
        # itself is re-expanded from the working tree every time
        cmd += ["--target-dir", "/var/tmp/vx-expand-target", "--", "-Zunpretty=expanded"]
        p = sh(cmd, cwd=REPO, check=False, timeout=900)
        if p.returncode != 0:
            raise Undecided("/repo does not compile (features=%s):\n%s" % (feat, p.stderr[-3000:]))
        exp = os.path.join(scratch, "expanded.rs")
        open(exp, "w").write(p.stdout)
        out = os.path.join(scratch, "extracted.rs")
        rep = os.path.join(scratch, "report.json")
        p = sh([EXTRACT_BIN, "--repo", REPO, "--expanded", exp, "--features", feat, "--out", out, "--report", rep], check=False)
        if p.returncode != 0:
            raise Undecided("extraction: " + p.stderr.strip())
        sh(["rustfmt", "--edition", "2021", out])
        text = open(out).read()
        report = json.load(open(rep))
        return text, report
    finally:
        shutil.rmtree(scratch, ignore_errors=True)


def contracts_text():
    parts = {}
    for f in sorted(os.listdir(CONTRACTS)):
        if f.endswith(".rs"):
            parts[f] = open(os.path.join(CONTRACTS, f)).read()
    return parts


def quarantine(gen_text, names):
    """mark the named exec functions external_body (their bodies use something Verus cannot read)"""
    gi = GenIndex(gen_text)
    ins = []
    for f in gi.funcs:
        if f["name"] in names and f["mode"] == "exec" and not f["external_body"]:
            off = gen_text.find(f["text"])
            if off >= 0:
                ins.append(off)
    out, pos = [], 0
    for off in sorted(ins):
        out.append(gen_text[pos:off])
        out.append("#[verifier::external_body] // @quarantined: unsupported construct in the body\n")
        pos = off
    out.append(gen_text[pos:])
    return "".join(out)


def rename_colliding(ext_text, ghost_src, master_src):
    """A function that is new in /repo may have the name of a ghost (spec) function of the contracts (`removed`,
    `hw`, `idx`, `wf`, ...): the generated file would then define the name twice.  Such a name is renamed
    consistently in the *extracted* text (which holds no ghost code) before the contracts are spliced on."""
    from . import rtok, splice as _sp
    ghost = set(re.findall(r"\b(?:spec|proof)\s+fn\s+([A-Za-z_][A-Za-z_0-9]*)", ghost_src + master_src))
    have = set(re.findall(r"\bfn\s+([A-Za-z_][A-Za-z_0-9]*)", master_src))
    new_fns = set(re.findall(r"\bfn\s+([A-Za-z_][A-Za-z_0-9]*)", ext_text)) - have
    clash = sorted(ghost & new_fns)
    if not clash:
        return ext_text, []
    toks = rtok.tokenize(ext_text)
    out, pos = [], 0
    for t in toks:
        if t.kind == "id" and t.text in clash:
            out.append(ext_text[pos:t.start])
            out.append(t.text + "_repo")
            pos = t.end
    out.append(ext_text[pos:])
    return "".join(out), ["%s -> %s_repo" % (c, c) for c in clash]


def generate(features=("std",), tag="std", quarantined=()):
    """returns dict(gen_path, gen_text, extraction, splice)"""
    ext_text, ext_report = extract(features, tag)
    parts = contracts_text()
    pre = "".join(parts[f] for f in sorted(parts) if f < "20_")
    code = parts["20_code.rs"]
    post = "".join(parts[f] for f in sorted(parts) if f > "20_code.rs")
    ext_text, renamed = rename_colliding(ext_text, pre, code)
    if renamed:
        ext_report = dict(ext_report)
        ext_report["renamed_to_avoid_ghost_names"] = renamed
    try:
        gen_code, srep = splice.splice("", code, ext_text, set(), quarantined=dict(quarantined) if isinstance(quarantined, dict) else {q: 1 for q in quarantined})
    except splice.SpliceError as e:
        raise Undecided("splice: %s" % e)
    if srep["errors"]:
        raise Undecided("splice: " + "; ".join(srep["errors"]))
    gen = pre + gen_code + post
    d = os.path.join(BUILD, tag)
    os.makedirs(d, exist_ok=True)
    gp = os.path.join(d, "indextree_vx.rs")
    open(gp, "w").write(gen)
    open(os.path.join(d, "extracted.rs"), "w").write(ext_text)
    json.dump(ext_report, open(os.path.join(d, "extraction_report.json"), "w"), indent=1)
    json.dump(srep, open(os.path.join(d, "splice_report.json"), "w"), indent=1)
    return {"gen_path": gp, "gen_text": gen, "extraction": ext_report, "splice": srep, "extracted": ext_text}


def run_verus(gen_path, gen_text, extra=(), label="main", use_cache=True):
    """runs verus on the generated file; returns dict(summary, diags, wall_s, cmd, cached)"""
    args = VERUS_ARGS + list(extra)
    key = sha(gen_text + "\0" + verus_version() + "\0" + " ".join(args))
    cdir = os.path.join(BUILD, "cache")
    os.makedirs(cdir, exist_ok=True)
    cpath = os.path.join(cdir, key + ".json")
    if use_cache and os.path.exists(cpath):
        r = json.load(open(cpath))
        r["cached"] = True
        return r
    cmd = ["verus", gen_path, "--output-json", "--time", "--error-format=json"] + args
    t0 = time.time()
    p = sh(cmd, check=False, timeout=7200)
    wall = time.time() - t0
    try:
        summary = json.loads(p.stdout)
    except Exception:
        summary = None
    diags = []
    other = []
    for line in p.stderr.splitlines():
        line = line.strip()
        if line.startswith("{"):
            try:
                d = json.loads(line)
                if d.get("$message_type") == "diagnostic":
                    diags.append(d)
                    continue
            except Exception:
                pass
        if line:
            other.append(line)
    r = {"summary": summary, "diags": diags, "stderr_other": other[-50:], "wall_s": wall, "cmd": " ".join(cmd),
         "returncode": p.returncode, "cached": False, "key": key}
    json.dump(r, open(cpath, "w"))
    return r


# ---------------------------------------------------------------- obligation table

OB_RE = re.compile(r"//\s*@ob\s+(\S+)((?:\s+C\d+)*)")
PROPS_RE = re.compile(r"//\s*@props((?:\s+C\d+)+)")


class GenIndex:
    """line -> function / label lookup in the generated file"""

    def __init__(self, text):
        self.text = text
        self.lines = text.split("\n")
        self.line_starts = [0]
        for l in self.lines:
            self.line_starts.append(self.line_starts[-1] + len(l) + 1)
        # locate verus! { ... } body
        m = re.search(r"^verus!\s*\{", text, re.M)
        if not m:
            raise Undecided("generated file has no verus! block")
        body_start = m.end()
        body_end = text.rfind("} // verus!")
        sub = text[body_start:body_end]
        try:
            toks = rtok.tokenize(sub)
            items = rtok.parse_items(toks, 0, len(toks))
        except rtok.ParseError as e:
            raise Undecided("cannot parse the generated file: %s" % e)
        self.funcs = []  # dict(name, lo_line, hi_line, exec, props, external_body, mode)
        def add(it, ck):
            lo = self.line_of(body_start + toks[it.lo].start)
            hi = self.line_of(body_start + toks[it.hi - 1].end)
            txt = sub[toks[it.lo].start:toks[it.hi - 1].end]
            head = sub[toks[it.lo].start:toks[it.body_lo].start] if it.body_lo >= 0 else txt
            pm = PROPS_RE.search(head)
            props = pm.group(1).split() if pm else []
            name = (ck + "::" if ck else "") + it.name
            mode = "exec" if it.exec_fn else ("proof" if re.search(r"\bproof\s+fn\b", head) else "spec")
            self.funcs.append({"name": name, "lo": lo, "hi": hi, "exec": it.exec_fn, "props": props, "mode": mode,
                               "body_off": (body_start + toks[it.body_lo].end) if it.body_lo >= 0 else -1,
                               "external_body": "external_body" in head, "text": txt,
                               "body_line": self.line_of(body_start + toks[it.body_lo].start) if it.body_lo >= 0 else lo})
        for it in items:
            if it.kind == "impl":
                ck = splice.container_key(it.header_key)
                impl_head = sub[toks[it.lo].start:toks[it.body_lo].start]
                for ch in it.children:
                    if ch.kind == "fn":
                        add(ch, ck)
                        if "verifier::external" in impl_head:
                            # an impl kept outside verification (R3b): its functions are not contracted
                            self.funcs[-1]["external_body"] = True
            elif it.kind == "fn":
                add(it, "")

    def line_of(self, off):
        import bisect
        return bisect.bisect_right(self.line_starts, off)

    def func_at(self, line):
        for f in self.funcs:
            if f["lo"] <= line <= f["hi"]:
                return f
        return None

    def label_at(self, line, f):
        """nearest `// @ob` comment above `line` inside function f, not separated by another clause start"""
        k = line
        while k >= f["lo"]:
            m = OB_RE.search(self.lines[k - 1])
            if m:
                return m.group(1), m.group(2).split()
            # stop when we leave the current clause upward: a line that ends with `,` above means previous clause
            if k < line and self.lines[k - 1].rstrip().endswith(",") and not self.lines[k - 1].strip().startswith("//"):
                break
            k -= 1
        return None, []


def classify(diag):
    msg = diag.get("message", "")
    lvl = diag.get("level")
    if lvl != "error":
        return None
    if msg.startswith("aborting due to"):
        return None
    definite = ("postcondition not satisfied", "precondition not satisfied", "assertion failed", "invariant not satisfied",
                "decreases not satisfied", "possible arithmetic underflow/overflow", "possible division by zero",
                "recommendation not met", "unreachable", "loop invariant", "could not prove termination",
                "possible bit shift underflow/overflow")
    if diag.get("code"):
        return "tool"  # a rustc error (type error, syntax, ...) is never a verification verdict
    if "rlimit" in msg.lower() or "resource limit" in msg.lower() or "timed out" in msg.lower() or "took too long" in msg.lower():
        return "resource"
    for d in definite:
        if d in msg:
            return "failed"
    return "tool"


def obligations_from(result, gi):
    """returns (failures, tool_errors, resource_errors); failure = dict(function, obligation, props, message, line, rendered)"""
    fails, tools, res = [], [], []
    for d in result["diags"]:
        c = classify(d)
        if c is None:
            continue
        spans = d.get("spans", [])
        prim = [s for s in spans if s.get("is_primary")]
        sec = [s for s in spans if not s.get("is_primary")]
        line = prim[0]["line_start"] if prim else 0
        if prim:
            # failures inside a macro expansion (assert!/unreachable!/...) are reported at the macro
            # definition: use the outermost invocation site instead
            sp = prim[0]
            while sp.get("expansion") and sp["expansion"].get("span"):
                sp = sp["expansion"]["span"]
                if sp.get("file_name", "").endswith("indextree_vx.rs"):
                    line = sp["line_start"]
        if c == "tool":
            tools.append({"message": d.get("message"), "line": line, "rendered": d.get("rendered", "")})
            continue
        f = gi.func_at(line) if line else None
        msg = d.get("message", "")
        entry = {"message": msg, "line": line, "rendered": d.get("rendered", ""), "kind": c}
        if f is None:
            entry.update({"function": "?", "obligation": "?:" + msg, "props": []})
        else:
            label, lprops = (None, [])
            weak_props = None
            if "postcondition" in msg or "invariant" in msg:
                label, lprops = gi.label_at(line, f)
                ob = "%s: %s" % (f["name"], label or ("clause@" + gi.lines[line - 1].strip()[:60]))
            elif "precondition" in msg:
                callee = None
                clabel = None
                for s in sec:
                    if s.get("label") == "failed precondition":
                        fname = s.get("file_name", "")
                        cf = gi.func_at(s["line_start"]) if re.search(r"indextree_vx\w*\.rs$", fname) else None
                        if cf:
                            callee = cf["name"]
                            clabel, cprops = gi.label_at(s["line_start"], cf)
                            if cprops:
                                lprops = cprops       # the clause says which properties it protects
                            elif cf["mode"] == "proof" and cf["props"]:
                                weak_props = [p for p in cf["props"]]   # a proof step: the properties the lemma serves (not specific)
                            if not clabel:
                                clabel = gi.lines[s["line_start"] - 1].strip()[:60]
                        else:
                            callee = "std:" + (s.get("text") or [{}])[0].get("text", "").strip()[:60]
                ob = "%s: call %s requires %s" % (f["name"], callee, clabel)
            else:
                ob = "%s: %s @%s" % (f["name"], msg, gi.lines[line - 1].strip()[:60])
            entry.update({"function": f["name"], "obligation": ob, "props": lprops or weak_props or f["props"], "specific": bool(lprops)})
        (res if c == "resource" else fails).append(entry)
    return fails, tools, res


def function_breakdown(result):
    out = {}
    s = result.get("summary") or {}
    try:
        for m in s["times-ms"]["smt"]["smt-run-module-times"]:
            for fb in m.get("function-breakdown", []):
                out[fb["function"]] = {"success": fb["success"], "time_us": fb["time-micros"], "rlimit": fb["rlimit"]}
    except Exception:
        pass
    return out


CLAUSE_KW = re.compile(r"\b(requires|ensures|invariant|invariant_except_break|decreases)\b")


def count_obligations(f):
    """syntactic obligation count of one function of the generated file: clauses + panic sites + calls"""
    t = f["text"]
    # strip comments
    t = re.sub(r"//[^\n]*", "", t)
    n_ens = 0
    # count top-level clauses in ensures/invariant/decreases sections: approximate by `,` terminated lines
    sect = None
    for line in t.split("\n"):
        s = line.strip()
        m = re.match(r"(requires|ensures|invariant_except_break|invariant|decreases|recommends)\b", s)
        if m:
            sect = m.group(1)
            s = s[m.end():].strip()
        if s == "{" or s.startswith("{") and sect:
            sect = None if s == "{" else sect
        if sect in ("ensures", "invariant", "invariant_except_break", "decreases") and s.endswith(",") and s:
            n_ens += 1
    n_assert = len(re.findall(r"\bassert\s*(\(|forall)", t))
    n_panic = len(re.findall(r"\b(vassert|vunreachable|debug_assert_triangle_nodes!|assert_triangle_nodes|debug_assert(_eq|_ne)?!|assert(_eq|_ne)?!|unreachable!)\s*\(", t))
    n_panic += len(re.findall(r"\.(expect|unwrap)\(", t))
    n_calls = len(re.findall(r"\blemma_\w+\s*(::<[^>]*>)?\(", t))
    return {"clauses": n_ens, "ghost_asserts": n_assert, "panic_sites": n_panic, "lemma_preconditions": n_calls}


VACUITY_MARK = "assert(false); // @vacuity-probe"


def vacuity_variant(gen_text, gi):
    """insert `assert(false)` at the start of every contracted exec fn and proof fn body"""
    ins = []
    for f in gi.funcs:
        if f["mode"] == "spec" or f["external_body"] or f["body_off"] < 0:
            continue
        if f["mode"] == "exec":
            ins.append((f["body_off"], "\n proof { %s\n }\n" % VACUITY_MARK))
        else:
            ins.append((f["body_off"], "\n %s\n" % VACUITY_MARK))
    out, pos = [], 0
    for off, txt in sorted(ins):
        out.append(gen_text[pos:off])
        out.append(txt)
        pos = off
    out.append(gen_text[pos:])
    return "".join(out)


def vacuity_check(g, tag="std"):
    """returns (vacuous_functions, probed_count, result)"""
    gi = GenIndex(g["gen_text"])
    vt = vacuity_variant(g["gen_text"], gi)
    vp = os.path.join(BUILD, tag, "indextree_vx_vacuity.rs")
    open(vp, "w").write(vt)
    r = run_verus(vp, vt, label="vacuity")
    vgi = GenIndex(vt)
    probed = [f["name"] for f in vgi.funcs if VACUITY_MARK in f["text"]]
    hit = set()
    for d in r["diags"]:
        if d.get("level") != "error":
            continue
        for sp in d.get("spans", []):
            if sp.get("is_primary"):
                ln = sp["line_start"]
                if VACUITY_MARK in vgi.lines[ln - 1]:
                    f = vgi.func_at(ln)
                    if f:
                        hit.add(f["name"])
    vacuous = [n for n in probed if n not in hit]
    return vacuous, len(probed), r


# ---------------------------------------------------------------- must-panic variants (C05, C12)

UNCHECKED = {"NodeId::append": "checked_append", "NodeId::prepend": "checked_prepend",
             "NodeId::insert_after": "checked_insert_after", "NodeId::insert_before": "checked_insert_before"}
UNTOUCHED = ("arena.nodes@ == old(arena).nodes@ && arena.first_free_slot == old(arena).first_free_slot "
             "&& arena.last_free_slot == old(arena).last_free_slot")


def mustpanic_variant(gen_text, gi):
    """Derive, mechanically, the `requires not-possible / ensures false` form of the four unchecked
    inserts and of append_value.  Returns (text, derived_function_names, problems)."""
    edits = []
    derived, problems = [], []
    for f in gi.funcs:
        name = f["name"]
        if name in UNCHECKED or name == "NodeId::append_value":
            t = f["text"]
            off = gen_text.find(t)
            if off < 0 or gen_text.count(t) != 1:
                problems.append("%s: cannot locate function text" % name)
                continue
            head_end = t.index("{", t.index("ensures")) if False else None
            m = re.search(r"\n(\s*)ensures\n", t)
            body_brace = f["body_off"] - off - 1  # index of `{` within t
            if not m:
                problems.append("%s: no ensures section" % name)
                continue
            header = t[:m.start()] + "\n" + m.group(1) + "ensures\n" + m.group(1) + "    false,\n" + m.group(1).replace("    ", "", 1)
            body = t[body_brace:]
            if name in UNCHECKED:
                if "!insert_impossible(" not in header:
                    problems.append("%s: success precondition not found" % name)
                    continue
                header = header.replace("!insert_impossible(", "insert_impossible(", 1)
                mm = re.match(r"\{\s*(self\s*\.\s*%s\(.*?\))\s*\.expect\((\".*?\")\);\s*\}\s*$" % UNCHECKED[name], body, re.S)
                if not mm:
                    problems.append("%s: body is no longer `self.%s(..).expect(..);`" % (name, UNCHECKED[name]))
                    continue
                nb = ("{\n        let __vx_t = %s;\n        proof {\n            assert(__vx_t is Err ==> (%s));\n        }\n"
                      "        expect_mp(__vx_t);\n    }" % (mm.group(1), UNTOUCHED))
            else:
                if "!old(arena).at(self).stamp.removed()," not in header:
                    problems.append("%s: success precondition not found" % name)
                    continue
                header = header.replace("!old(arena).at(self).stamp.removed(),", "old(arena).at(self).stamp.removed(),", 1)
                # every assert! of the body may be the refusing one: each becomes "arena untouched here, and
                # execution continues only if the condition holds"; with no assert! at all `ensures false` fails
                nb = re.sub(r"(?<![\w!])assert!\(", "proof {\n            assert(%s);\n        }\n        assert_mp!(" % UNTOUCHED, body)
            edits.append((off, off + len(t), header + nb))
            derived.append(name)
    out, pos = [], 0
    for a, b, r in sorted(edits):
        out.append(gen_text[pos:a])
        out.append(r)
        pos = b
    out.append(gen_text[pos:])
    text = "".join(out)
    text = text.replace("macro_rules! unreachable {", "macro_rules! assert_mp { ($c:expr $(, $($rest:tt)*)?) => { vassert_mp($c) } }\nmacro_rules! unreachable {", 1)
    return text, derived, problems


def mustpanic_check(g, tag="std"):
    gi = GenIndex(g["gen_text"])
    text, derived, problems = mustpanic_variant(g["gen_text"], gi)
    vp = os.path.join(BUILD, tag, "indextree_vx_mustpanic.rs")
    open(vp, "w").write(text)
    r = run_verus(vp, text, label="mustpanic")
    vgi = GenIndex(text)
    fails, tools, res = obligations_from(r, vgi)
    return {"derived": derived, "problems": problems, "fails": [x for x in fails if x["function"] in derived],
            "tools": tools, "res": [x for x in res if x["function"] in derived], "result": r, "path": vp}


# ---------------------------------------------------------------- witness step: bounded concrete exploration

def repo_src_hash():
    h = hashlib.sha256()
    d = os.path.join(REPO, "indextree", "src")
    for f in sorted(os.listdir(d)):
        if f.endswith(".rs"):
            h.update(f.encode())
            h.update(open(os.path.join(d, f), "rb").read())
    return h.hexdigest()


def explore(seed=1, budget_ms=12000, replay_ops=None):
    """build tools/replay against the working tree of /repo and run it; returns its JSON (cached)"""
    main_rs = open(os.path.join(VERIF, "tools", "replay", "src", "main.rs")).read()
    key = sha(repo_src_hash() + main_rs + str(seed) + str(budget_ms) + (replay_ops or ""))
    cdir = os.path.join(BUILD, "cache")
    os.makedirs(cdir, exist_ok=True)
    cpath = os.path.join(cdir, "explore-" + key + ".json")
    if os.path.exists(cpath):
        return json.load(open(cpath))
    scratch = tempfile.mkdtemp(prefix="vx.", dir="/var/tmp")
    try:
        tmpl = open(os.path.join(VERIF, "tools", "replay", "Cargo.toml.tmpl")).read().replace("@REPO@", REPO)
        open(os.path.join(scratch, "Cargo.toml"), "w").write(tmpl + "\n[profile.nodebug]\ninherits = \"release\"\ndebug-assertions = false\noverflow-checks = false\n")
        os.makedirs(os.path.join(scratch, "src"))
        open(os.path.join(scratch, "src", "main.rs"), "w").write(main_rs)
        lock = os.path.join(REPO, "Cargo.lock")
        out = {"runs": [], "violations": [], "hang": False}
        t0 = time.time()
        for prof, share in (("release", 1.0), ("nodebug", 1.0)):
            p = sh(["cargo", "build", "--offline", "--profile", prof], cwd=scratch, check=False, timeout=900)
            if p.returncode != 0:
                raise Undecided("the witness explorer does not build against /repo: " + p.stderr[-1500:])
            binp = os.path.join(scratch, "target", prof, "vx-replay")
            if replay_ops:
                cmd = [binp, "replay", replay_ops]
            else:
                cmd = [binp, "explore", str(seed), str(int(budget_ms * share))]
            try:
                q = subprocess.run(cmd, stdout=subprocess.PIPE, stderr=subprocess.PIPE, text=True, timeout=budget_ms / 1000.0 * share * 26 + 120)
                line = [l for l in q.stdout.splitlines() if l.startswith("{")]
                j = json.loads(line[-1]) if line else {"violations": [], "sequences": 0, "operations": 0, "error": q.stderr[-500:]}
            except subprocess.TimeoutExpired:
                j = {"violations": [{"props": ["C02"], "ops": "?", "msg": "the explorer itself did not finish (possible non-termination)"}], "hang": True}
            j["build"] = "debug assertions on" if prof == "release" else "debug assertions off (release semantics)"
            out["runs"].append({k: j.get(k) for k in ("build", "sequences", "operations", "hang")})
            for vv in j.get("violations", []):
                vv["build"] = j["build"]
                out["violations"].append(vv)
        out["wall_s"] = round(time.time() - t0, 1)
        json.dump(out, open(cpath, "w"))
        return out
    finally:
        shutil.rmtree(scratch, ignore_errors=True)


def digest(features, seed=1, nrandom=4000, transcript_ops=None):
    """C17: build tools/replay against the working tree with the given cargo features of indextree and
    return its `digest` output (one line per operation sequence: hash of everything the calls returned +
    the final arena).  With transcript_ops: the full transcript of that one sequence.  Cached."""
    main_rs = open(os.path.join(VERIF, "tools", "replay", "src", "main.rs")).read()
    key = sha(repo_src_hash() + main_rs + ",".join(features) + str(seed) + str(nrandom) + (transcript_ops or ""))
    cdir = os.path.join(BUILD, "cache")
    os.makedirs(cdir, exist_ok=True)
    cpath = os.path.join(cdir, "digest-" + key + ".json")
    if os.path.exists(cpath):
        return json.load(open(cpath))
    scratch = tempfile.mkdtemp(prefix="vx.", dir="/var/tmp")
    try:
        tmpl = open(os.path.join(VERIF, "tools", "replay", "Cargo.toml.tmpl")).read().replace("@REPO@", REPO)
        feats = ", ".join('"%s"' % f for f in features)
        tmpl2 = tmpl.replace('features = ["std"]', "features = [%s]" % feats)
        if tmpl2 == tmpl and tuple(features) != ("std",):
            raise Undecided("tools/replay/Cargo.toml.tmpl: feature list not found")
        open(os.path.join(scratch, "Cargo.toml"), "w").write(tmpl2)
        os.makedirs(os.path.join(scratch, "src"))
        open(os.path.join(scratch, "src", "main.rs"), "w").write(main_rs)
        p = sh(["cargo", "build", "--offline", "--release"], cwd=scratch, check=False, timeout=1200)
        if p.returncode != 0:
            raise Undecided("the differential runner does not build against /repo with features {%s}: %s" % (",".join(features), p.stderr[-1500:]))
        binp = os.path.join(scratch, "target", "release", "vx-replay")
        cmd = [binp, "transcript", transcript_ops] if transcript_ops else [binp, "digest", str(seed), str(nrandom)]
        try:
            q = subprocess.run(cmd, stdout=subprocess.PIPE, stderr=subprocess.PIPE, text=True, timeout=600)
        except subprocess.TimeoutExpired:
            raise Undecided("the differential runner did not finish with features {%s}" % ",".join(features))
        out = q.stdout.splitlines()
        json.dump(out, open(cpath, "w"))
        return out
    finally:
        shutil.rmtree(scratch, ignore_errors=True)


# ---------------------------------------------------------------- bounded Kani harnesses (get_node_id)

# (harness, debug assertions on?) per tier; the full recycled harness takes ~10 min of CBMC time in a debug build
KANI_HARNESSES = {
    "quick": [("gni_fresh", True), ("gni_small_recycled", False)],
    "thorough": [("gni_fresh", True), ("gni_small_recycled", True), ("gni_full_recycled", True)],
}


def kani_check(tier="quick"):
    """builds the harness crate against the working tree and runs the harnesses of the tier; cached"""
    lib = open(os.path.join(VERIF, "tools", "kani", "lib.rs")).read()
    key = sha(repo_src_hash() + lib + tier)
    cpath = os.path.join(BUILD, "cache", "kani-" + key + ".json")
    os.makedirs(os.path.dirname(cpath), exist_ok=True)
    if os.path.exists(cpath):
        return json.load(open(cpath))
    out = {"harnesses": [], "wall_s": 0.0, "tier": tier}
    t0 = time.time()
    for debug in (True, False):
        hs = [h for h, d in KANI_HARNESSES[tier] if d == debug]
        if not hs:
            continue
        scratch = tempfile.mkdtemp(prefix="vx.", dir="/var/tmp")
        try:
            toml = open(os.path.join(VERIF, "tools", "kani", "Cargo.toml.tmpl")).read().replace("@REPO@", REPO)
            if not debug:
                toml = toml.replace("[workspace]", "[profile.dev]\ndebug-assertions = false\noverflow-checks = true\n\n[workspace]")
            open(os.path.join(scratch, "Cargo.toml"), "w").write(toml)
            os.makedirs(os.path.join(scratch, "src"))
            open(os.path.join(scratch, "src", "lib.rs"), "w").write(lib)
            lock = os.path.join(REPO, "Cargo.lock")
            if os.path.exists(lock):
                shutil.copy(lock, os.path.join(scratch, "Cargo.lock"))
            for h in hs:
                p = sh(["cargo", "kani", "--harness", h], cwd=scratch, check=False, timeout=2400)
                txt = p.stdout + p.stderr
                ok = "VERIFICATION:- SUCCESSFUL" in txt and "VERIFICATION:- FAILED" not in txt
                m = re.search(r"\*\* (\d+) of (\d+) failed", txt)
                # a verdict needs at least one failed check that is a property of the code: a solver that was killed
                # (out of memory, timeout) or an unwinding assertion (bound too small for the changed code) is not one
                failed_desc = re.findall(r"Failed Checks: (.*)", txt)
                real = [d for d in failed_desc if "unwinding assertion" not in d and "recursion unwinding" not in d]
                failed = ("VERIFICATION:- FAILED" in txt and m is not None and int(m.group(1)) >= 1 and bool(real)
                          and "CBMC failed" not in txt and "CBMC timed out" not in txt)
                out["harnesses"].append({"name": h, "debug_assertions": debug, "status": "ok" if ok else ("failed" if failed else "error"),
                                         "checks": int(m.group(2)) if m else 0, "failed_checks": int(m.group(1)) if m else None,
                                         "tail": txt[-2500:] if not ok else ""})
        finally:
            shutil.rmtree(scratch, ignore_errors=True)
    out["wall_s"] = round(time.time() - t0, 1)
    if all(h["status"] in ("ok", "failed") for h in out["harnesses"]):  # (a killed or timed-out run is not remembered)
        json.dump(out, open(cpath, "w"))
    return out
