"""Splicer: put the Verus annotations of contracts/annotated.rs onto the code extracted from /repo.

For every exec function of the master file the executable tokens (annotation regions erased, see
rtok.exec_regions) are compared with the tokens of the same function as extracted from /repo on
this run.  Equal: the master text is emitted (it *is* the repository's code plus ghost text).
Different: the repository's text is emitted and every annotation region is transplanted to the
position given by a token alignment (difflib), so the *changed* code is what Verus checks.
"""
import difflib
import json
import re
import sys

from . import rtok


class SpliceError(Exception):
    pass


def container_key(header):
    h = header
    if h.startswith("impl"):
        h = h[4:]
    if h.startswith("<"):
        depth = 0
        for k, ch in enumerate(h):
            if ch == "<":
                depth += 1
            elif ch == ">":
                depth -= 1
                if depth == 0:
                    h = h[k + 1:]
                    break
    h = re.sub(r"<('[a-z_]+,)?T>", "", h)
    return h


class Parsed:
    def __init__(self, src, name):
        self.src = src
        self.name = name
        try:
            self.toks = rtok.tokenize(src)
            self.items = rtok.parse_items(self.toks, 0, len(self.toks))
        except rtok.ParseError as e:
            raise SpliceError("%s: %s" % (name, e))

    def text(self, lo, hi):
        """source text of token range [lo,hi)"""
        return self.src[self.toks[lo].start:self.toks[hi - 1].end]

    def walk(self):
        for it in self.items:
            if it.kind == "impl":
                ck = container_key(it.header_key)
                for ch in it.children:
                    yield ck, ch
            else:
                yield "", it


def depth_keys(texts):
    out, d = [], 0
    for t in texts:
        if t == "{":
            out.append("{@%d" % d)
            d += 1
        elif t == "}":
            d -= 1
            out.append("}@%d" % d)
        else:
            out.append(t)
    return out


def transplant(master, mit, regs, kept, ext, eit):
    """emit ext's text for the function with master's annotation regions inserted"""
    # extracted side has no annotations but may have attributes/pub: erase the same way
    eregs = rtok.exec_regions(ext.toks, eit)
    ekept = rtok.kept_tokens(ext.toks, eit, eregs)
    # braces are compared together with their nesting depth, so that an inserted or deleted block
    # cannot shift the alignment of the braces around it
    K = depth_keys([master.toks[k].text for k in kept])
    A = depth_keys([ext.toks[k].text for k in ekept])
    sm = difflib.SequenceMatcher(None, K, A, autojunk=False)
    k2a = {}
    for blk in sm.get_matching_blocks():
        # isolated one- or two-token matches inside rewritten code are coincidences: ignore them
        if blk.size < 3 and not (blk.a == 0 or blk.a + blk.size == len(K)):
            continue
        for d in range(blk.size):
            k2a[blk.a + d] = blk.b + d
    dropped = []
    kept_pos = {tokidx: n for n, tokidx in enumerate(kept)}
    # insertion points: for each region, the kept-token ordinal that follows it
    inserts = {}  # offset in ext.src -> [texts]
    order = 0
    outer = [(a, b) for (a, b, kind) in regs if kind != "vis"]
    for (a, b, kind) in regs:
        if kind == "vis":
            continue  # visibility comes with the extracted text
        if any(oa <= a and b <= ob and (oa, ob) != (a, b) for oa, ob in outer):
            continue  # nested in another region (an attribute inside a clause): it travels with that region
        # region text, including the comments (labels) that precede it
        left_tok = a - 1
        txt_lo = master.toks[left_tok].end if left_tok >= mit.lo else master.toks[a].start
        body = master.src[txt_lo:master.toks[b - 1].end]
        txt = body + "\n"
        nxt = b
        while nxt < mit.hi and nxt not in kept_pos:
            nxt += 1
        prv = a - 1
        while prv >= mit.lo and prv not in kept_pos:
            prv -= 1
        rtxt = master.src[master.toks[a].start:master.toks[b - 1].end]
        named_open = b <= mit.sig_end and a > mit.lo and master.toks[a - 1].text == "->" and rtxt.startswith("(") and rtxt.endswith(":")
        named_close = b <= mit.sig_end and rtxt == ")" and any(
            master.toks[x[0] - 1].text == "->" and x[1] <= a for x in regs if x[2] != "vis" and x[0] > mit.lo)
        arrow = None
        if (named_open or named_close) and eit.body_lo >= 0:
            # the return arrow of the extracted signature (the last `->` outside any bracket before the body)
            depth = 0
            for q in range(eit.lo, eit.body_lo):
                tt = ext.toks[q].text
                if tt in ("(", "[", "{", "<"):
                    depth += 1
                elif tt in (")", "]", "}", ">"):
                    depth -= 1
                elif tt == "->" and depth == 0:
                    arrow = q
        if named_open and arrow is not None:
            # a named return value is placed by its role, not by alignment: `-> (r:` ... `)` around the return type
            pos = ext.toks[arrow].end
            txt = " " + rtxt + "\n"
        elif named_close and arrow is not None:
            pos = ext.toks[eit.body_lo].start
            txt = ")\n"
        elif (named_open or named_close):
            # the extracted function returns nothing: the name has nothing to attach to
            dropped.append(rtxt)
            continue
        elif b == mit.body_lo and eit.body_lo >= 0 and a >= mit.sig_end:
            # header clauses always go right in front of the body, whatever happened to the signature
            pos = ext.toks[eit.body_lo].start
        elif prv < mit.lo:
            # leading region (attributes): goes in front of the extracted item
            pos = ext.toks[eit.lo].start
            txt = master.src[master.toks[a].start:master.toks[b - 1].end] + "\n"
        elif kept_pos[prv] in k2a:
            pos = ext.toks[ekept[k2a[kept_pos[prv]]]].end
        elif nxt < mit.hi and kept_pos[nxt] in k2a:
            pos = ext.toks[ekept[k2a[kept_pos[nxt]]]].start
        else:
            # the code on both sides of this annotation is gone from /repo: the annotation goes too
            dropped.append(master.src[master.toks[a].start:master.toks[b - 1].end][:80])
            continue
        inserts.setdefault(pos, []).append((order, txt))
        order += 1
    lo = ext.toks[eit.lo].start
    hi = ext.toks[eit.hi - 1].end
    # erase ext's own attribute / pub regions
    cuts = [(ext.toks[a].start, ext.toks[b - 1].end) for a, b, kind in eregs if kind != "vis"]
    out = []
    i = lo
    points = sorted(set(list(inserts.keys()) + [c[0] for c in cuts]))
    cutmap = dict(cuts)
    for p in points:
        if p < i:
            # inside a cut: emit the insert right away
            for _, t in sorted(inserts.get(p, [])):
                out.append(t)
            continue
        out.append(ext.src[i:p])
        i = p
        for _, t in sorted(inserts.get(p, [])):
            out.append(t)
        if p in cutmap:
            i = cutmap[p]
    out.append(ext.src[i:hi])
    ratio = sm.ratio()
    return "".join(out), ratio, dropped


def derives_of(parsed, it):
    """the traits in the #[derive(..)] attributes of a type item"""
    a_end = rtok._skip_attrs(parsed.toks, it.lo, it.hi)
    txt = parsed.src[parsed.toks[it.lo].start:parsed.toks[a_end].start] if a_end > it.lo else ""
    out = set()
    for m in re.finditer(r"derive\s*\(([^)]*)\)", txt):
        for t in m.group(1).split(","):
            t = t.strip().split("::")[-1]
            if t:
                out.add(t)
    return out


SKELETON = {"if", "else", "match", "return", "while", "loop", "for", "break", "continue", "?", "=>"}


def skeleton(tokens):
    """the control-flow shape of a body: its branching, looping and exit tokens in order"""
    return [t for t in tokens if t in SKELETON]


def bodyless(txt):
    """the text of one function with its body replaced by `unimplemented!()` (signature and header clauses kept)"""
    p = Parsed(txt, "fn.rs")
    fns = [it for _ck, it in p.walk() if it.kind == "fn"]
    if not fns or fns[0].body_lo < 0:
        return txt
    it = fns[0]
    return txt[:p.toks[it.body_lo].start] + "{\n    unimplemented!()\n}"


def splice(prelude_src, master_src, ext_src, deferred, quarantined=()):
    master = Parsed(master_src, "annotated.rs")
    ext = Parsed(ext_src, "extracted.rs")
    efns, etypes = {}, {}
    for ck, it in ext.walk():
        if it.kind == "fn" and it.exec_fn:
            efns[(ck, it.name)] = it
        elif it.kind == "type":
            etypes[it.name] = it
    report = {"functions": {}, "types": {}, "deferred": [], "errors": [], "uncontracted": []}
    edits = []  # (start, end, replacement) on master.src
    seen = set()
    # a type whose definition changed in /repo: its definition is taken from /repo (with the master's
    # attributes) and every function of its impl blocks loses its contract
    changed_types = set()
    for ck0, it0 in master.walk():
        if it0.kind == "type" and it0.name in etypes:
            K0 = [master.toks[k].text for k in rtok.type_kept(master.toks, it0)]
            A0 = [ext.toks[k].text for k in rtok.type_kept(ext.toks, etypes[it0.name])]
            if K0 != A0:
                changed_types.add(it0.name)
    for ck, it in master.walk():
        if it.kind == "fn" and it.exec_fn:
            key = (ck, it.name)
            name = (ck + "::" if ck else "") + it.name
            if key not in efns:
                report["errors"].append("function %s is under contract but no longer exists in /repo" % name)
                continue
            seen.add(key)
            eit = efns[key]
            regs = rtok.exec_regions(master.toks, it)
            kept = rtok.kept_tokens(master.toks, it, regs)
            K = [master.toks[k].text for k in kept]
            eregs = rtok.exec_regions(ext.toks, eit)
            A = [ext.toks[k].text for k in rtok.kept_tokens(ext.toks, eit, eregs)]
            mprops = re.search(r"//\s*@props((?:\s+C\d+)+)", master.src[master.toks[it.lo].start:master.toks[it.body_lo].start] if it.body_lo >= 0 else "")
            mprops = mprops.group(1).split() if mprops else []
            # levels: 0 verified; 1 contract kept, body not verified; 2 no contract, body kept;
            #         3 contract kept, body text dropped (it does not compile in the extracted world);
            #         4 no contract, body text dropped
            level = quarantined.get(name, 0) if isinstance(quarantined, dict) else (1 if name in quarantined else 0)
            if ck in changed_types and level in (0, 1):
                level = 2
            if ck in changed_types and level == 3:
                level = 4
            if level in (2, 4):
                # the contract itself no longer fits (changed type, changed signature): emit the function of
                # /repo without any ghost text and without specification
                txt = ext.src[ext.toks[eit.lo].start:ext.toks[eit.hi - 1].end]
                if level == 4:
                    txt = bodyless(txt)
                txt = "#[verifier::external_body] // @uncontracted: the contract no longer fits this function\n" + txt
                edits.append((master.toks[it.lo].start, master.toks[it.hi - 1].end, txt))
                report["functions"][name] = {"status": "uncontracted", "exec_tokens": len(A), "props": mprops, "body_dropped": level == 4}
                report.setdefault("uncontracted", []).append(name)
            elif level in (1, 3):
                # keep the contract (header clauses), drop every ghost region of the body, do not verify the body
                hregs = [r for r in regs if r[1] <= it.body_lo + 1]
                txt, ratio, dropped = transplant(master, it, hregs, kept, ext, eit)
                if level == 3:
                    txt = bodyless(txt)
                txt = "#[verifier::external_body] // @quarantined: body not read by the verifier\n" + txt
                edits.append((master.toks[it.lo].start, master.toks[it.hi - 1].end, txt))
                report["functions"][name] = {"status": "quarantined", "exec_tokens": len(A), "props": mprops, "body_dropped": level == 3}
            elif K == A:
                report["functions"][name] = {"status": "exact", "exec_tokens": len(K)}
            else:
                txt, ratio, dropped = transplant(master, it, regs, kept, ext, eit)
                edits.append((master.toks[it.lo].start, master.toks[it.hi - 1].end, txt))
                # Did the control-flow skeleton change?  The proof script inside a body (proof blocks, ghost
                # lets, loop invariants) is tied to program points; if branches or exits were added, removed or
                # reshaped, a clause may fail on the new code only because its proof hints sit on another path.
                # (ghost text before the first executable token of the body is not tied to a program point)
                body_exec = [k for k in kept if k > it.body_lo]
                first_exec = body_exec[0] if body_exec else it.hi
                body_ghost = any(r[0] > first_exec for r in regs if r[2] == "ann")
                report["functions"][name] = {"status": "transplanted", "exec_tokens": len(A), "similarity": round(ratio, 4),
                                             "annotations_dropped_with_their_code": dropped,
                                             "skeleton_changed": skeleton(K) != skeleton(A), "body_ghost": body_ghost}
        elif it.kind == "type":
            if it.name in etypes:
                # the derive lists are part of what the contracts rely on (derived Clone / PartialEq / Copy /
                # Default are taken with their std meaning): a derive that /repo no longer has is reported
                md = derives_of(master, it) - {"Structural"}
                ed = derives_of(ext, etypes[it.name])
                if md != ed:
                    report.setdefault("derives_changed", {})[it.name] = {"contracts": sorted(md), "repo": sorted(ed)}
                K = [master.toks[k].text for k in rtok.type_kept(master.toks, it)]
                A = [ext.toks[k].text for k in rtok.type_kept(ext.toks, etypes[it.name])]
                if K == A:
                    report["types"][it.name] = "exact"
                else:
                    report["types"][it.name] = "changed"
                    et = etypes[it.name]
                    # master's attributes (derives for Verus) + the definition of /repo
                    a_end = rtok._skip_attrs(master.toks, it.lo, it.hi)
                    attrs = master.src[master.toks[it.lo].start:master.toks[a_end].start] if a_end > it.lo else ""
                    e_a_end = rtok._skip_attrs(ext.toks, et.lo, et.hi)
                    body = ext.src[ext.toks[e_a_end].start:ext.toks[et.hi - 1].end]
                    edits.append((master.toks[it.lo].start, master.toks[it.hi - 1].end, attrs + body))
    new_types = []
    for name, it in etypes.items():
        if name not in report["types"]:
            # a type that is new in /repo: carried over as written (no contract mentions it)
            report["types"][name] = "new"
            new_types.append(ext.src[ext.toks[it.lo].start:ext.toks[it.hi - 1].end])
    # functions of /repo that have no contract (new in the working tree): emitted unverified and without
    # a specification (`external_body`); what their callers can still prove is decided downstream
    tail = list(new_types)
    for top in ext.items:
        members = top.children if top.kind == "impl" else [top]
        ck = container_key(top.header_key) if top.kind == "impl" else ""
        new_fns = [it for it in members if it.kind == "fn" and it.exec_fn and (ck, it.name) not in seen]
        if not new_fns:
            continue
        texts = []
        for it in new_fns:
            name = (ck + "::" if ck else "") + it.name
            report["uncontracted"].append(name)
            txt = ext.src[ext.toks[it.lo].start:ext.toks[it.hi - 1].end]
            lvl = quarantined.get(name, 0) if isinstance(quarantined, dict) else 0
            if lvl >= 1:
                txt = bodyless(txt)  # its body does not compile in the extracted world
                report.setdefault("bodies_dropped", []).append(name)
            if lvl >= 2:
                # even its signature is beyond the verifier (e.g. a function-pointer parameter): not part of the
                # verified crate at all; its callers cannot be verified either
                report.setdefault("external_functions", []).append(name)
                texts.append("#[verifier::external] // @uncontracted: this function of /repo has no contract and a signature Verus cannot read\n" + txt)
            else:
                texts.append("#[verifier::external_body] // @uncontracted: this function of /repo has no contract\n" + txt)
        if top.kind == "impl":
            head = ext.src[ext.toks[top.lo].start:ext.toks[top.body_lo].end]
            tail.append(head + "\n" + "\n".join(texts) + "\n}\n")
        else:
            tail.extend(texts)
    # constants, statics and type aliases of /repo that the contracts do not have: emitted as written
    def _norm(t):
        return re.sub(r"\s+", "", t)

    def _simple_items(parsed):
        out_ = []
        for top in parsed.items:
            members = [(top, "")] if top.kind != "impl" else [(c, top) for c in top.children]
            for it, parent in members:
                if it.kind == "other":
                    txt = parsed.src[parsed.toks[it.lo].start:parsed.toks[it.hi - 1].end]
                    body = re.sub(r"^(\s*#\[[^\]]*\]\s*)*", "", txt)
                    if re.match(r"(pub(\([^)]*\))?\s+)?(const|static|type)\b", body) and not re.match(r"(pub\s+)?const\s+fn\b", body):
                        out_.append((it, parent, txt))
        return out_

    have = set(_norm(t) for _it, _p, t in _simple_items(master))
    for it, parent, txt in _simple_items(ext):
        if _norm(txt) in have:
            continue
        report.setdefault("new_constants", []).append(re.sub(r"\s+", " ", txt)[:120])
        mname = re.search(r"\b(?:const|static|type)\s+([A-Za-z_][A-Za-z_0-9]*)", txt)
        cname = mname.group(1) if mname else "?"
        report.setdefault("new_constant_names", []).append(cname)
        clvl = quarantined.get("const:" + cname, 0) if isinstance(quarantined, dict) else 0
        is_alias = bool(re.match(r"(\s*#\[[^\]]*\]\s*)*(pub(\([^)]*\))?\s+)?type\b", txt))
        if clvl >= 2 or (is_alias and clvl >= 1):
            # even its type is beyond the verifier (e.g. function pointers): not part of the verified crate; whatever
            # mentions it cannot be verified either
            txt = "#[verifier::external] // @opaque-const: not read by the verifier\n" + txt
            report.setdefault("opaque_constants", []).append(cname)
        elif clvl == 1:
            # its initialiser is beyond the verifier (e.g. it calls an exec function): the value is then unknown to it
            txt = "#[verifier::external_body] // @opaque-const: initialiser not read by the verifier\n" + txt
            report.setdefault("opaque_constants", []).append(cname)
        txt = "// @newconst %s\n" % cname + txt
        if parent == "":
            tail.append(txt)
        else:
            head = ext.src[ext.toks[parent.lo].start:ext.toks[parent.body_lo].end]
            tail.append(head + "\n" + txt + "\n}\n")
    # apply edits
    out = []
    pos = 0
    for s, e, r in sorted(edits):
        out.append(master.src[pos:s])
        out.append(r)
        pos = e
    out.append(master.src[pos:])
    out.append("\n" + "\n".join(tail) + "\n" if tail else "")
    gen = prelude_src + "\n" + "".join(out)
    return gen, report


def main(argv):
    prelude, master, ext, deferred_path, outp, repp = argv[1:7]
    deferred = set(l.strip() for l in open(deferred_path) if l.strip() and not l.startswith("#"))
    try:
        gen, report = splice(open(prelude).read(), open(master).read(), open(ext).read(), deferred)
    except SpliceError as e:
        print("splice: %s" % e, file=sys.stderr)
        return 2
    open(outp, "w").write(gen)
    json.dump(report, open(repp, "w"), indent=1)
    if report["errors"]:
        for e in report["errors"]:
            print("splice: " + e, file=sys.stderr)
        return 2
    return 0


if __name__ == "__main__":
    sys.exit(main(sys.argv))
