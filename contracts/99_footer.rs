
} // verus!

fn main() {}
