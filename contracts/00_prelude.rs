// Generated-file prelude: fixed imports, panic primitives re-interpreted as obligations (R5),
// and the specifications assumed for std functions that vstd does not cover (trusted, listed
// in every evidence file).  Nothing in this file comes from /repo.
#![feature(allocator_api)]
#![allow(unused_imports, dead_code, unused_variables, unused_mut, unused_macros, unreachable_code)]
#![verifier::allow(autoderive_clone_without_spec)]
use vstd::prelude::*;
use vstd::std_specs::core::IndexSpecImpl;
use std::num::NonZeroUsize;
use std::ops::{Index, IndexMut};
use std::{mem, slice};

verus! {

// ---- R5: every panic site is a proof obligation --------------------------------------------
pub fn vassert(c: bool)
    requires c,
{
}

#[verifier::external_body]
pub fn vunreachable() -> !
    requires false,
{
    panic!()
}

macro_rules! assert { ($c:expr $(, $($rest:tt)*)?) => { vassert($c) } }
macro_rules! debug_assert { ($c:expr $(, $($rest:tt)*)?) => { vassert($c) } }
macro_rules! assert_eq { ($a:expr, $b:expr $(, $($rest:tt)*)?) => { vassert($a == $b) } }
macro_rules! debug_assert_eq { ($a:expr, $b:expr $(, $($rest:tt)*)?) => { vassert($a == $b) } }
macro_rules! debug_assert_ne { ($a:expr, $b:expr $(, $($rest:tt)*)?) => { vassert($a != $b) } }
macro_rules! unreachable { ($($rest:tt)*) => { vunreachable() } }

// ---- R8: "which element of this Vec is this reference" ----------------------------------------
/// Stands for the four-statement raw-pointer idiom of `Arena::get_node_id` (`as_ptr_range().contains(&p)` followed by
/// `(p as usize - start as usize) / size_of::<Node<T>>()`), which Verus cannot read.  TRUSTED: a `&Node<T>` that
/// points into the buffer of a `Vec<Node<T>>` points at one of its elements, and the quotient is that element's
/// index; a reference outside the buffer gives `None`.  Verus has value semantics for shared references, so the
/// specification can only say that the element at the returned index *is* the referenced node.
#[verifier::external_body]
pub fn vx_slice_position<T>(v: &Vec<Node<T>>, node: &Node<T>) -> (r: Option<usize>)
    ensures
        r is Some ==> r->0 < v@.len() && v@[r->0 as int] == *node,
{
    let nodes_range = v.as_ptr_range();
    let p = node as *const Node<T>;
    if !nodes_range.contains(&p) {
        return None;
    }
    Some((p as usize - nodes_range.start as usize) / core::mem::size_of::<Node<T>>())
}

// ---- must-panic variants (thorough tier, C05/C12): `expect` / `assert!` return only when they do not panic ----
#[verifier::external_body]
pub fn expect_mp<T, E>(r: Result<T, E>) -> (v: T)
    ensures
        r is Ok,
        r->Ok_0 == v,
{
    unimplemented!()
}

#[verifier::external_body]
pub fn vassert_mp(c: bool)
    ensures
        c,
{
    unimplemented!()
}

