// ============================================================================================
// Specification vocabulary (DESIGN.md §3).  Pure ghost text: spec functions, proof lemmas and
// the assumed specifications of std functions.  Nothing here is executable code of /repo.
// ============================================================================================

// ---- assumed std specs (trusted; listed in evidence) --------------------------------------
pub assume_specification<T>[ Option::<T>::or ](a: Option<T>, b: Option<T>) -> (r: Option<T>)
    ensures
        r == (if a is Some { a } else { b }),
;

pub assume_specification[ i16::is_negative ](x: i16) -> (r: bool)
    ensures
        r == (x < 0),
;

// integer helpers of core that vstd does not specify (stated from the std documentation)
pub assume_specification[ i16::saturating_neg ](x: i16) -> (r: i16)
    ensures
        r == (if x == i16::MIN { i16::MAX } else { (-x) as i16 }),
;

pub assume_specification[ i16::wrapping_neg ](x: i16) -> (r: i16)
    ensures
        r == (if x == i16::MIN { i16::MIN } else { (-x) as i16 }),
;

pub assume_specification[ i16::saturating_sub ](x: i16, y: i16) -> (r: i16)
    ensures
        r == (if x - y > i16::MAX { i16::MAX } else if x - y < i16::MIN { i16::MIN } else { (x - y) as i16 }),
;

pub assume_specification[ i16::saturating_add ](x: i16, y: i16) -> (r: i16)
    ensures
        r == (if x + y > i16::MAX { i16::MAX } else if x + y < i16::MIN { i16::MIN } else { (x + y) as i16 }),
;

pub assume_specification[ i16::abs ](x: i16) -> (r: i16)
    requires
        x != i16::MIN,
    ensures
        r == (if x < 0 { (-x) as i16 } else { x }),
;

pub assume_specification[ i16::unsigned_abs ](x: i16) -> (r: u16)
    ensures
        r as int == (if x < 0 { -(x as int) } else { x as int }),
;

pub assume_specification[ i16::signum ](x: i16) -> (r: i16)
    ensures
        r == (if x < 0 { -1i16 } else if x == 0 { 0i16 } else { 1i16 }),
;

pub assume_specification[ i16::is_positive ](x: i16) -> (r: bool)
    ensures
        r == (x > 0),
;

pub assume_specification[ i16::checked_neg ](x: i16) -> (r: Option<i16>)
    ensures
        r == (if x == i16::MIN { None::<i16> } else { Some((-x) as i16) }),
;

/// std: "the number of elements the vector can hold without reallocating", never below `len()`
pub assume_specification<T, A: core::alloc::Allocator>[ Vec::<T, A>::capacity ](v: &Vec<T, A>) -> (r: usize)
    ensures
        r >= v@.len(),
;

/// `NonZeroUsize` is a plain wrapper around its value (extensionality).
#[verifier::external_body]
pub proof fn axiom_nonzero_ext(a: NonZeroUsize, b: NonZeroUsize)
    requires
        a@ == b@,
    ensures
        a == b,
{
}

/// A `Vec<Node<T>>` cannot hold `usize::MAX` elements: its allocation is bounded by `isize::MAX`
/// bytes and a `Node<T>` is larger than one byte (five link fields).  So the documented
/// "Too many nodes in the arena" panic of `new_node` is unreachable.
#[verifier::external_body]
pub proof fn axiom_vec_node_len<T>(v: &Vec<Node<T>>)
    ensures
        v@.len() < usize::MAX,
{
}

pub proof fn lemma_id_eq(a: NodeId, b: NodeId)
    // @props C05
    requires
        a.idx() == b.idx(),
        a.stamp == b.stamp,
    ensures
        a == b,
{
    axiom_nonzero_ext(a.index1, b.index1);
}

/// core's `impl<T> From<T> for Option<T>` wraps in `Some`; `impl<T> From<T> for T` is the identity
#[verifier::external_body]
pub proof fn axiom_into_some<T>(x: T)
    ensures
        <T as vstd::std_specs::convert::IntoSpec<Option<T>>>::obeys_into_spec(),
        <T as vstd::std_specs::convert::IntoSpec<Option<T>>>::into_spec(x) == Some(x),
{
}

#[verifier::external_body]
pub proof fn axiom_into_self<T>(x: T)
    ensures
        <T as vstd::std_specs::convert::IntoSpec<T>>::obeys_into_spec(),
        <T as vstd::std_specs::convert::IntoSpec<T>>::into_spec(x) == x,
{
}

// derived `PartialEq` on plain data is structural equality (R6)
impl vstd::std_specs::cmp::PartialEqSpecImpl for NodeId {
    open spec fn obeys_eq_spec() -> bool {
        true
    }

    open spec fn eq_spec(&self, other: &NodeId) -> bool {
        *self == *other
    }
}

impl vstd::std_specs::cmp::PartialEqSpecImpl for NodeEdge {
    open spec fn obeys_eq_spec() -> bool {
        true
    }

    open spec fn eq_spec(&self, other: &NodeEdge) -> bool {
        *self == *other
    }
}

// ---- stamps ---------------------------------------------------------------------------------
impl NodeStamp {
    pub open spec fn removed(self) -> bool {
        self.0 < 0
    }

    /// high-water mark: the largest live generation this slot has had
    pub open spec fn hw(self) -> int {
        if self.0 >= 0 {
            self.0 as int
        } else {
            -(self.0 as int) - 1
        }
    }

    pub open spec fn can_reuse(self) -> bool {
        self.0 < 0 && self.0 > i16::MIN
    }
}

impl NodeId {
    pub open spec fn idx(self) -> int {
        self.index1@ as int - 1
    }
}

pub open spec fn is_data<T>(d: NodeData<T>) -> bool {
    d is Data
}

// ---- arena views ----------------------------------------------------------------------------
impl<T> Arena<T> {
    pub open spec fn has(&self, id: NodeId) -> bool {
        0 <= id.idx() < self.nodes@.len()
    }

    pub open spec fn ohas(&self, id: Option<NodeId>) -> bool {
        id is Some ==> self.has(id->0)
    }

    pub open spec fn at(&self, id: NodeId) -> Node<T> {
        self.nodes@[id.idx()]
    }

    /// the id names the node currently stored in its slot
    pub open spec fn live(&self, id: NodeId) -> bool {
        self.has(id) && self.at(id).stamp == id.stamp && !id.stamp.removed()
    }

    /// the id's node has been removed and its slot not yet recycled
    pub open spec fn dead(&self, id: NodeId) -> bool {
        self.has(id) && !id.stamp.removed() && self.at(id).stamp.0 == -(id.stamp.0 as int) - 1
    }

    /// the id that `get_node_id` reports for a removed, not yet recycled slot: it carries the slot's removed stamp
    pub open spec fn dead_alias(&self, id: NodeId) -> bool {
        self.has(id) && id.stamp.removed() && self.at(id).stamp == id.stamp
    }

    /// the quantifier of the properties: "live, or removed and not yet recycled" (under either of its two ids)
    pub open spec fn current(&self, id: NodeId) -> bool {
        self.live(id) || self.dead(id) || self.dead_alias(id)
    }
}

impl<T> IndexSpecImpl<NodeId> for Arena<T> {
    open spec fn index_req(&self, node: &NodeId) -> bool {
        self.has(*node)
    }
}

// ---- link well-formedness (C01, C12) ---------------------------------------------------------
/// a link names a live node of the current generation of its slot
pub open spec fn tgt_ok<T>(s: Seq<Node<T>>, l: Option<NodeId>) -> bool {
    l is Some ==> 0 <= l->0.idx() < s.len() && s[l->0.idx()].stamp == l->0.stamp && !l->0.stamp.removed()
}

pub open spec fn is_me<T>(s: Seq<Node<T>>, i: int, l: Option<NodeId>) -> bool {
    l is Some && l->0.idx() == i && l->0.stamp == s[i].stamp
}

pub open spec fn no_links<T>(n: Node<T>) -> bool {
    n.parent is None && n.previous_sibling is None && n.next_sibling is None && n.first_child is None
        && n.last_child is None
}

#[verifier::opaque]
pub open spec fn node_ok<T>(s: Seq<Node<T>>, i: int) -> bool {
    let n = s[i];
    if n.stamp.removed() {
        // C12: a removed node reports no parent, no siblings, no children
        no_links(n)
    } else {
        &&& tgt_ok(s, n.parent) && tgt_ok(s, n.previous_sibling) && tgt_ok(s, n.next_sibling)
            && tgt_ok(s, n.first_child) && tgt_ok(s, n.last_child)
        &&& n.next_sibling is Some ==> {
            let y = n.next_sibling->0.idx();
            y != i && is_me(s, i, s[y].previous_sibling) && s[y].parent == n.parent
        }
        &&& n.previous_sibling is Some ==> {
            let y = n.previous_sibling->0.idx();
            y != i && is_me(s, i, s[y].next_sibling) && s[y].parent == n.parent
        }
        &&& n.parent is Some ==> {
            let p = n.parent->0.idx();
            p != i && (n.previous_sibling is None ==> is_me(s, i, s[p].first_child)) && (n.next_sibling is None
                ==> is_me(s, i, s[p].last_child))
        }
        &&& n.first_child is Some ==> {
            let c = n.first_child->0.idx();
            is_me(s, i, s[c].parent) && s[c].previous_sibling is None
        }
        &&& n.last_child is Some ==> {
            let c = n.last_child->0.idx();
            is_me(s, i, s[c].parent) && s[c].next_sibling is None
        }
        &&& (n.first_child is Some) == (n.last_child is Some)
    }
}

pub open spec fn links_ok<T>(s: Seq<Node<T>>) -> bool {
    forall|i: int| 0 <= i < s.len() ==> #[trigger] node_ok(s, i)
}

// ---- acyclicity witnesses (C02) -------------------------------------------------------------
pub struct Ranks {
    pub depth: spec_fn(int) -> nat,
    pub rem: spec_fn(int) -> nat,
    pub pos: spec_fn(int) -> nat,
    pub bound: nat,
}

pub open spec fn ranked_at<T>(s: Seq<Node<T>>, w: Ranks, i: int) -> bool {
    &&& s[i].next_sibling is Some ==> {
        let j = s[i].next_sibling->0.idx();
        (w.rem)(i) > (w.rem)(j) && (w.pos)(i) < (w.pos)(j)
    }
    &&& s[i].parent is Some ==> (w.depth)(i) > (w.depth)(s[i].parent->0.idx())
    &&& (w.depth)(i) <= w.bound
}

pub open spec fn ranked<T>(s: Seq<Node<T>>, w: Ranks) -> bool {
    forall|i: int| 0 <= i < s.len() ==> #[trigger] ranked_at(s, w, i)
}

// ---- payload / free list (C07, C08) ----------------------------------------------------------
pub open spec fn data_ok<T>(s: Seq<Node<T>>) -> bool {
    forall|i: int| 0 <= i < s.len() ==> ((#[trigger] s[i]).stamp.removed() <==> !(s[i].data is Data))
}

/// the linked structure of the free list: `fl` is the sequence of free slots, oldest first
pub open spec fn free_chain<T>(s: Seq<Node<T>>, first: Option<usize>, last: Option<usize>, fl: Seq<int>) -> bool {
    &&& fl.no_duplicates()
    &&& forall|k: int| 0 <= k < fl.len() ==> 0 <= #[trigger] fl[k] < s.len()
    &&& (fl.len() == 0 ==> first is None && last is None)
    &&& (fl.len() > 0 ==> first == Some(fl[0] as usize) && last == Some(fl[fl.len() - 1] as usize))
    &&& forall|k: int|
        0 <= k < fl.len() ==> (#[trigger] s[fl[k]]).data == NodeData::<T>::NextFree(
            if k + 1 < fl.len() {
                Some(fl[k + 1] as usize)
            } else {
                None
            },
        ) && s[fl[k]].stamp.can_reuse()
}

/// no slot is lost: every removed slot that can still be reused is in the list
pub open spec fn fl_complete<T>(s: Seq<Node<T>>, fl: Seq<int>) -> bool {
    forall|i: int| 0 <= i < s.len() && (#[trigger] s[i]).stamp.can_reuse() ==> fl.contains(i)
}

#[verifier::opaque]
pub open spec fn free_list<T>(s: Seq<Node<T>>, first: Option<usize>, last: Option<usize>, fl: Seq<int>) -> bool {
    free_chain(s, first, last, fl) && fl_complete(s, fl)
}

/// `free_list` with one popped slot still waiting to be recycled (inside `new_node` only)
#[verifier::opaque]
pub open spec fn free_list_popped<T>(s: Seq<Node<T>>, first: Option<usize>, last: Option<usize>, fl: Seq<int>, x: int) -> bool {
    &&& free_chain(s, first, last, fl)
    &&& forall|i: int| 0 <= i < s.len() && i != x && (#[trigger] s[i]).stamp.can_reuse() ==> fl.contains(i)
    &&& 0 <= x < s.len() && s[x].stamp.can_reuse() && !(s[x].data is Data) && !fl.contains(x)
}

impl<T> Arena<T> {
    pub open spec fn fl_ok(&self) -> bool {
        fl_ok_state(self.nodes@, self.first_free_slot, self.last_free_slot)
    }

    pub open spec fn acyclic(&self) -> bool {
        exists|w: Ranks| ranked(self.nodes@, w)
    }

    /// the representation invariant of every reachable arena
    pub open spec fn wf(&self) -> bool {
        &&& links_ok(self.nodes@)
        &&& self.acyclic()
        &&& data_ok(self.nodes@)
        &&& self.fl_ok()
    }
}

/// everything but the links of a node
pub open spec fn same_payload<T>(a: Node<T>, b: Node<T>) -> bool {
    a.stamp == b.stamp && a.data == b.data
}

pub open spec fn payload_frame<T>(o: Seq<Node<T>>, n: Seq<Node<T>>) -> bool {
    n.len() == o.len() && forall|i: int| 0 <= i < o.len() ==> same_payload(#[trigger] n[i], o[i])
}

pub proof fn lemma_payload_frame_wf<T>(o: Seq<Node<T>>, n: Seq<Node<T>>, first: Option<usize>, last: Option<usize>)
    // @props C07 C08
    requires
        payload_frame(o, n),
    ensures
        data_ok(o) ==> data_ok(n),
        forall|fl: Seq<int>| free_list(o, first, last, fl) ==> free_list(n, first, last, fl),
{
    reveal(free_list);
    assert forall|fl: Seq<int>| free_list(o, first, last, fl) implies free_list(n, first, last, fl) by {
        assert forall|k: int| 0 <= k < fl.len() implies (#[trigger] n[fl[k]]).data == NodeData::<T>::NextFree(
            if k + 1 < fl.len() {
                Some(fl[k + 1] as usize)
            } else {
                None
            },
        ) && n[fl[k]].stamp.can_reuse() by {
            assert(same_payload(n[fl[k]], o[fl[k]]));
        }
        assert forall|i: int| 0 <= i < n.len() && (#[trigger] n[i]).stamp.can_reuse() implies fl.contains(i) by {
            assert(same_payload(n[i], o[i]));
        }
    }
    if data_ok(o) {
        assert forall|i: int| 0 <= i < n.len() implies ((#[trigger] n[i]).stamp.removed() <==> !(n[i].data is Data)) by {
            assert(same_payload(n[i], o[i]));
        }
    }
}

/// `#[derive(Default)]` on `struct NodeStamp(i16)` yields generation 0 (R6)
pub assume_specification[ <NodeStamp as Default>::default ]() -> (r: NodeStamp)
    ensures
        r.0 == 0,
;

/// an arena without slots is acyclic whatever its other fields say
pub proof fn lemma_empty_acyclic<T>()
    // @props C02 C01
    ensures
        forall|a: Arena<T>| a.nodes@.len() == 0 ==> #[trigger] a.acyclic(),
{
    assert forall|a: Arena<T>| a.nodes@.len() == 0 implies #[trigger] a.acyclic() by {
        let w = Ranks { depth: |i: int| 0nat, rem: |i: int| 0nat, pos: |i: int| 0nat, bound: 0 };
        assert(ranked(a.nodes@, w));
    }
}

pub proof fn lemma_empty_wf<T>()
    // @props C13 C01
    ensures
        forall|a: Arena<T>|
            #![trigger a.wf()]
            #![trigger a.acyclic()]
            #![trigger a.fl_ok()]
            a.nodes@.len() == 0 && a.first_free_slot is None && a.last_free_slot is None ==> a.wf() && a.acyclic() && a.fl_ok(),
{
    assert forall|a: Arena<T>|
        #![trigger a.wf()]
        #![trigger a.acyclic()]
        #![trigger a.fl_ok()]
        a.nodes@.len() == 0 && a.first_free_slot is None && a.last_free_slot is None implies a.wf() && a.acyclic() && a.fl_ok() by {
        let w = Ranks { depth: |i: int| 0nat, rem: |i: int| 0nat, pos: |i: int| 0nat, bound: 0 };
        assert(ranked(a.nodes@, w));
        let fl = Seq::<int>::empty();
        reveal(free_list);
        assert(free_list(a.nodes@, a.first_free_slot, a.last_free_slot, fl));
    }
}

/// what the exec code may read off the head and tail of the free list
pub proof fn lemma_fl_ends<T>(s: Seq<Node<T>>, first: Option<usize>, last: Option<usize>, fl: Seq<int>)
    // @props C07
    requires
        free_list(s, first, last, fl),
    ensures
        first is None <==> fl.len() == 0,
        last is None <==> fl.len() == 0,
        fl.len() > 0 ==> first == Some(fl[0] as usize) && last == Some(fl[fl.len() - 1] as usize) && 0 <= fl[0] < s.len()
            && 0 <= fl[fl.len() - 1] < s.len() && s[fl[0]].data is NextFree && s[fl[0]].stamp.can_reuse() && s[fl[fl.len()
            - 1]].stamp.can_reuse(),
        forall|i: int| 0 <= i < s.len() && !(#[trigger] s[i]).stamp.can_reuse() ==> !fl.contains(i),
{
    reveal(free_list);
    assert forall|i: int| 0 <= i < s.len() && !(#[trigger] s[i]).stamp.can_reuse() implies !fl.contains(i) by {
        if fl.contains(i) {
            let k = choose|k: int| 0 <= k < fl.len() && fl[k] == i;
            assert(s[fl[k]].stamp.can_reuse());
        }
    }
}

/// popping the head of the free list (the nodes are untouched)
pub proof fn lemma_fl_pop<T>(s: Seq<Node<T>>, first: Option<usize>, last: Option<usize>, fl: Seq<int>, nfirst: Option<usize>, nlast: Option<usize>)
    // @props C07
    requires
        free_list(s, first, last, fl),
        fl.len() > 0,
        s[fl[0]].data == NodeData::<T>::NextFree(nfirst),
        nlast == (if nfirst is None { None } else { last }),
        s.len() <= usize::MAX,
    ensures
        free_list_popped(s, nfirst, nlast, fl.drop_first(), fl[0]),
{
    reveal(free_list);
    reveal(free_list_popped);
    let t = fl.drop_first();
    assert forall|k: int| 0 <= k < t.len() implies (#[trigger] s[t[k]]).data == NodeData::<T>::NextFree(
        if k + 1 < t.len() { Some(t[k + 1] as usize) } else { None }) && s[t[k]].stamp.can_reuse() by {
        assert(t[k] == fl[k + 1]);
        assert(s[fl[k + 1]].stamp.can_reuse());
    }
    assert(t.no_duplicates()) by {
        assert forall|p: int, q: int| 0 <= p < t.len() && 0 <= q < t.len() && p != q implies t[p] != t[q] by {
            assert(t[p] == fl[p + 1] && t[q] == fl[q + 1]);
        }
    }
    assert forall|k: int| 0 <= k < t.len() implies 0 <= #[trigger] t[k] < s.len() by {
        assert(t[k] == fl[k + 1]);
    }
    assert(s[fl[0]].stamp.can_reuse());
    if fl.len() > 1 {
        assert(t[0] == fl[1]);
        assert(t[t.len() - 1] == fl[fl.len() - 1]);
    }
    assert forall|i: int| 0 <= i < s.len() && i != fl[0] && (#[trigger] s[i]).stamp.can_reuse() implies t.contains(i) by {
        let k = choose|k: int| 0 <= k < fl.len() && fl[k] == i;
        assert(k > 0);
        assert(t[k - 1] == i);
    }
    assert(!t.contains(fl[0])) by {
        if t.contains(fl[0]) {
            let k = choose|k: int| 0 <= k < t.len() && t[k] == fl[0];
            assert(t[k] == fl[k + 1]);
        }
    }
}

/// pushing slot `x` (live in `o`, removed and reuseable in `n`) at the tail of the free list
pub proof fn lemma_fl_push<T>(o: Seq<Node<T>>, n: Seq<Node<T>>, first: Option<usize>, last: Option<usize>, fl: Seq<int>, x: int, nfirst: Option<usize>, nlast: Option<usize>)
    // @props C07
    requires
        free_list(o, first, last, fl),
        0 <= x < o.len(),
        o.len() <= usize::MAX,
        !o[x].stamp.removed(),
        n.len() == o.len(),
        n[x].stamp.can_reuse(),
        n[x].data == NodeData::<T>::NextFree(None),
        forall|i: int| 0 <= i < o.len() && i != x ==> (#[trigger] n[i]).stamp == o[i].stamp,
        fl.len() > 0 ==> n[fl[fl.len() - 1]].data == NodeData::<T>::NextFree(Some(x as usize)) && nfirst == first,
        fl.len() == 0 ==> nfirst == Some(x as usize),
        forall|i: int| 0 <= i < o.len() && i != x && (fl.len() == 0 || i != fl[fl.len() - 1]) ==> (#[trigger] n[i]).data == o[i].data,
        nlast == Some(x as usize),
    ensures
        free_list(n, nfirst, nlast, fl.push(x)),
{
    reveal(free_list);
    let t = fl.push(x);
    assert(!fl.contains(x)) by {
        if fl.contains(x) {
            let k = choose|k: int| 0 <= k < fl.len() && fl[k] == x;
            assert(o[fl[k]].stamp.can_reuse());
        }
    }
    assert(t.no_duplicates()) by {
        assert forall|p: int, q: int| 0 <= p < t.len() && 0 <= q < t.len() && p != q implies t[p] != t[q] by {
            if p < fl.len() && q < fl.len() {
                assert(t[p] == fl[p] && t[q] == fl[q]);
            } else if p < fl.len() {
                assert(fl.contains(t[p]));
            } else {
                assert(fl.contains(t[q]));
            }
        }
    }
    assert forall|k: int| 0 <= k < t.len() implies (#[trigger] n[t[k]]).data == NodeData::<T>::NextFree(
        if k + 1 < t.len() { Some(t[k + 1] as usize) } else { None }) && n[t[k]].stamp.can_reuse() by {
        if k < fl.len() {
            assert(t[k] == fl[k]);
            assert(o[fl[k]].stamp.can_reuse());
            assert(fl.contains(fl[k]));
            if k + 1 < fl.len() {
                assert(t[k + 1] == fl[k + 1]);
                assert(fl[k] != fl[fl.len() - 1]);
            }
        }
    }
    assert forall|i: int| 0 <= i < n.len() && (#[trigger] n[i]).stamp.can_reuse() implies t.contains(i) by {
        if i == x {
            assert(t[fl.len() as int] == x);
        } else {
            assert(o[i].stamp.can_reuse());
            let k = choose|k: int| 0 <= k < fl.len() && fl[k] == i;
            assert(t[k] == i);
        }
    }
    assert forall|k: int| 0 <= k < t.len() implies 0 <= #[trigger] t[k] < n.len() by {
        if k < fl.len() { assert(t[k] == fl[k]); }
    }
    if fl.len() > 0 { assert(t[0] == fl[0]); }
}

/// the free list is untouched by freeing a slot whose generation counter is exhausted
pub proof fn lemma_fl_retire<T>(o: Seq<Node<T>>, n: Seq<Node<T>>, first: Option<usize>, last: Option<usize>, fl: Seq<int>, x: int)
    // @props C07
    requires
        free_list(o, first, last, fl),
        0 <= x < o.len(),
        !o[x].stamp.removed(),
        n.len() == o.len(),
        !n[x].stamp.can_reuse(),
        forall|i: int| 0 <= i < o.len() && i != x ==> (#[trigger] n[i]).stamp == o[i].stamp && n[i].data == o[i].data,
    ensures
        free_list(n, first, last, fl),
{
    reveal(free_list);
    assert forall|k: int| 0 <= k < fl.len() implies fl[k] != x by {
        assert(o[fl[k]].stamp.can_reuse());
    }
    assert forall|k: int| 0 <= k < fl.len() implies (#[trigger] n[fl[k]]).data == NodeData::<T>::NextFree(
        if k + 1 < fl.len() { Some(fl[k + 1] as usize) } else { None }) && n[fl[k]].stamp.can_reuse() by {
        assert(o[fl[k]].stamp.can_reuse());
    }
    assert forall|i: int| 0 <= i < n.len() && (#[trigger] n[i]).stamp.can_reuse() implies fl.contains(i) by {
        assert(o[i].stamp.can_reuse());
    }
}

/// the popped slot becomes live again (recycled)
pub proof fn lemma_fl_reuse<T>(o: Seq<Node<T>>, n: Seq<Node<T>>, first: Option<usize>, last: Option<usize>, fl: Seq<int>, x: int)
    // @props C07
    requires
        free_list_popped(o, first, last, fl, x),
        n.len() == o.len(),
        !n[x].stamp.removed(),
        forall|i: int| 0 <= i < o.len() && i != x ==> (#[trigger] n[i]).stamp == o[i].stamp && n[i].data == o[i].data,
    ensures
        free_list(n, first, last, fl),
{
    reveal(free_list);
    reveal(free_list_popped);
    assert forall|k: int| 0 <= k < fl.len() implies fl[k] != x by {
        assert(fl.contains(fl[k]));
    }
    assert forall|k: int| 0 <= k < fl.len() implies (#[trigger] n[fl[k]]).data == NodeData::<T>::NextFree(
        if k + 1 < fl.len() { Some(fl[k + 1] as usize) } else { None }) && n[fl[k]].stamp.can_reuse() by {
        assert(o[fl[k]].stamp.can_reuse());
    }
    assert forall|i: int| 0 <= i < n.len() && (#[trigger] n[i]).stamp.can_reuse() implies fl.contains(i) by {
        assert(o[i].stamp.can_reuse());
    }
}

/// appending a fresh live slot does not disturb the free list
pub proof fn lemma_fl_grow<T>(o: Seq<Node<T>>, n: Seq<Node<T>>, first: Option<usize>, last: Option<usize>, fl: Seq<int>)
    // @props C07
    requires
        free_list(o, first, last, fl),
        n.len() == o.len() + 1,
        !n[o.len() as int].stamp.removed(),
        forall|i: int| 0 <= i < o.len() ==> (#[trigger] n[i]) == o[i],
    ensures
        free_list(n, first, last, fl),
{
    reveal(free_list);
    assert forall|k: int| 0 <= k < fl.len() implies (#[trigger] n[fl[k]]).data == NodeData::<T>::NextFree(
        if k + 1 < fl.len() { Some(fl[k + 1] as usize) } else { None }) && n[fl[k]].stamp.can_reuse() by {
        assert(o[fl[k]].stamp.can_reuse());
        assert(n[fl[k]] == o[fl[k]]);
    }
    assert forall|i: int| 0 <= i < n.len() && (#[trigger] n[i]).stamp.can_reuse() implies fl.contains(i) by {
        assert(n[i] == o[i]);
    }
}

/// links, ranks and payload tags after a node has been allocated in slot `x`
pub proof fn lemma_alloc_links<T>(o: Seq<Node<T>>, n: Seq<Node<T>>, x: int)
    // @props C01 C07 C12
    requires
        links_ok(o),
        exists|w: Ranks| ranked(o, w),
        data_ok(o),
        0 <= x <= o.len(),
        x < o.len() ==> n.len() == o.len() && o[x].stamp.removed(),
        x == o.len() ==> n.len() == o.len() + 1,
        forall|i: int| 0 <= i < o.len() && i != x ==> (#[trigger] n[i]) == o[i],
        no_links(n[x]),
        !n[x].stamp.removed(),
        n[x].data is Data,
    ensures
        links_ok(n),
        exists|w: Ranks| ranked(n, w),
        data_ok(n),
{
    reveal(node_ok);
    let w = choose|w: Ranks| ranked(o, w);
    let w2 = Ranks { depth: |i: int| if i == x { 0nat } else { (w.depth)(i) }, rem: w.rem, pos: w.pos, bound: w.bound };
    assert forall|i: int| 0 <= i < n.len() implies #[trigger] ranked_at(n, w2, i) by {
        if i != x {
            assert(ranked_at(o, w, i));
            assert(node_ok(o, i));
        }
    }
    assert(ranked(n, w2));
    assert forall|i: int| 0 <= i < n.len() implies #[trigger] node_ok(n, i) by {
        if i != x {
            assert(node_ok(o, i));
        }
    }
    assert forall|i: int| 0 <= i < n.len() implies ((#[trigger] n[i]).stamp.removed() <==> !(n[i].data is Data)) by {
        if i != x {
            assert(n[i] == o[i]);
        }
    }
}

pub proof fn lemma_fl_popped_slot<T>(s: Seq<Node<T>>, first: Option<usize>, last: Option<usize>, fl: Seq<int>, x: int)
    // @props C07
    requires
        free_list_popped(s, first, last, fl, x),
    ensures
        0 <= x < s.len() && s[x].stamp.can_reuse() && !(s[x].data is Data),
{
    reveal(free_list_popped);
}

// ---- link-level effects of the helpers (C03, C04) ------------------------------------------
/// exact effect of `connect_neighbors`, mirroring the code (`first_child.or(previous)`)
pub open spec fn connect_post<T>(o: Seq<Node<T>>, n: Seq<Node<T>>, parent: Option<NodeId>, previous: Option<NodeId>, next: Option<NodeId>) -> bool {
    &&& n.len() == o.len()
    &&& forall|i: int|
        0 <= i < o.len() ==> {
            &&& (#[trigger] n[i]).stamp == o[i].stamp
            &&& n[i].data == o[i].data
            &&& n[i].parent == o[i].parent
            &&& n[i].previous_sibling == (if next is Some && i == (next->0).idx() {
                previous
            } else {
                o[i].previous_sibling
            })
            &&& n[i].next_sibling == (if previous is Some && i == (previous->0).idx() {
                next
            } else {
                o[i].next_sibling
            })
            &&& n[i].first_child == (if parent is Some && i == (parent->0).idx() {
                if previous is Some {
                    if o[i].first_child is Some {
                        o[i].first_child
                    } else {
                        previous
                    }
                } else {
                    next
                }
            } else {
                o[i].first_child
            })
            &&& n[i].last_child == (if parent is Some && i == (parent->0).idx() {
                if next is Some {
                    if o[i].last_child is Some {
                        o[i].last_child
                    } else {
                        next
                    }
                } else {
                    previous
                }
            } else {
                o[i].last_child
            })
        }
}

/// cutting the range f..l out of its sibling list (the parents of the range are left stale)
pub open spec fn detach_range_post<T>(o: Seq<Node<T>>, n: Seq<Node<T>>, f: int, l: int) -> bool {
    let parent = o[f].parent;
    let prev = o[f].previous_sibling;
    let next = o[l].next_sibling;
    &&& n.len() == o.len()
    &&& forall|i: int|
        0 <= i < o.len() ==> {
            &&& (#[trigger] n[i]).stamp == o[i].stamp && n[i].data == o[i].data && n[i].parent == o[i].parent
            &&& n[i].previous_sibling == (if i == f {
                None
            } else if next is Some && i == next->0.idx() {
                prev
            } else {
                o[i].previous_sibling
            })
            &&& n[i].next_sibling == (if i == l {
                None
            } else if prev is Some && i == prev->0.idx() {
                next
            } else {
                o[i].next_sibling
            })
            &&& n[i].first_child == (if parent is Some && i == parent->0.idx() && prev is None {
                next
            } else {
                o[i].first_child
            })
            &&& n[i].last_child == (if parent is Some && i == parent->0.idx() && next is None {
                prev
            } else {
                o[i].last_child
            })
        }
}

/// c is the next_sibling chain starting at slot f and ending at a node without next sibling
pub open spec fn is_chain<T>(s: Seq<Node<T>>, f: int, c: Seq<int>) -> bool {
    &&& c.len() > 0
    &&& c[0] == f
    &&& forall|k: int| 0 <= k < c.len() ==> 0 <= #[trigger] c[k] < s.len()
    &&& forall|k: int|
        0 <= k < c.len() - 1 ==> (#[trigger] s[c[k]]).next_sibling is Some && s[c[k]].next_sibling->0.idx() == c[k + 1]
    &&& s[c[c.len() - 1]].next_sibling is None
}

pub open spec fn same_but_parent<T>(a: Node<T>, b: Node<T>) -> bool {
    &&& a.stamp == b.stamp && a.data == b.data && a.previous_sibling == b.previous_sibling
    &&& a.next_sibling == b.next_sibling && a.first_child == b.first_child && a.last_child == b.last_child
}

/// every node of the chain gets `new_parent`; nothing else changes
pub open spec fn reparent_post<T>(o: Seq<Node<T>>, n: Seq<Node<T>>, c: Seq<int>, new_parent: Option<NodeId>) -> bool {
    &&& n.len() == o.len()
    &&& forall|i: int|
        0 <= i < o.len() ==> {
            &&& same_but_parent(#[trigger] n[i], o[i])
            &&& n[i].parent == (if c.contains(i) {
                new_parent
            } else {
                o[i].parent
            })
        }
}

pub proof fn lemma_subrange_step(c: Seq<int>, k: int)
    // @props C03
    requires
        0 <= k < c.len(),
    ensures
        forall|i: int| c.subrange(0, k + 1).contains(i) == (c.subrange(0, k).contains(i) || i == c[k]),
{
    assert(c.subrange(0, k + 1) =~= c.subrange(0, k).push(c[k]));
    assert forall|i: int| c.subrange(0, k + 1).contains(i) == (c.subrange(0, k).contains(i) || i == c[k]) by {
        if c.subrange(0, k).contains(i) {
            let j = choose|j: int| 0 <= j < k && c.subrange(0, k)[j] == i;
            assert(c.subrange(0, k + 1)[j] == i);
        }
        if i == c[k] {
            assert(c.subrange(0, k + 1)[k] == i);
        }
    }
}

pub proof fn lemma_chain_prefix<T>(s: Seq<Node<T>>, f: int, c: Seq<int>, d: Seq<int>, n: int)
    // @props C03
    requires
        is_chain(s, f, c),
        is_chain(s, f, d),
        0 <= n < c.len(),
        n < d.len(),
    ensures
        forall|k: int| 0 <= k <= n ==> c[k] == d[k],
    decreases n,
{
    if n > 0 {
        lemma_chain_prefix(s, f, c, d, n - 1);
        assert(c[n - 1] == d[n - 1]);
        assert(s[c[n - 1]].next_sibling->0.idx() == c[n]);
        assert(s[d[n - 1]].next_sibling->0.idx() == d[n]);
    }
}

pub proof fn lemma_chain_unique<T>(s: Seq<Node<T>>, f: int, c: Seq<int>)
    // @props C03
    requires
        is_chain(s, f, c),
    ensures
        forall|d: Seq<int>| is_chain(s, f, d) ==> d == c,
{
    assert forall|d: Seq<int>| is_chain(s, f, d) implies d == c by {
        lemma_chain_prefix(s, f, c, d, (if c.len() <= d.len() { c.len() } else { d.len() }) as int - 1);
        if c.len() < d.len() {
            assert(s[c[c.len() - 1]].next_sibling is None);
            assert(s[d[c.len() - 1]].next_sibling is Some);
        }
        if d.len() < c.len() {
            assert(s[d[d.len() - 1]].next_sibling is None);
            assert(s[c[d.len() - 1]].next_sibling is Some);
        }
        assert(d =~= c);
    }
}

// ---- consequences of well-formedness used by the exec proofs ---------------------------------
/// a node that names a parent is on that parent's child list, so the parent has a first child
pub proof fn lemma_parent_has_first<T>(s: Seq<Node<T>>, w: Ranks, y: int)
    // @props C01
    requires
        links_ok(s),
        ranked(s, w),
        0 <= y < s.len(),
        !s[y].stamp.removed(),
        s[y].parent is Some,
    ensures
        s[s[y].parent->0.idx()].first_child is Some,
    decreases (w.pos)(y),
{
    reveal(node_ok);
    assert(node_ok(s, y));
    if s[y].previous_sibling is Some {
        let z = s[y].previous_sibling->0.idx();
        assert(node_ok(s, z));
        assert(ranked_at(s, w, z));
        lemma_parent_has_first(s, w, z);
    }
}

pub proof fn lemma_parent_has_last<T>(s: Seq<Node<T>>, w: Ranks, y: int)
    // @props C01
    requires
        links_ok(s),
        ranked(s, w),
        0 <= y < s.len(),
        !s[y].stamp.removed(),
        s[y].parent is Some,
    ensures
        s[s[y].parent->0.idx()].last_child is Some,
    decreases (w.rem)(y),
{
    reveal(node_ok);
    assert(node_ok(s, y));
    if s[y].next_sibling is Some {
        let z = s[y].next_sibling->0.idx();
        assert(node_ok(s, z));
        assert(ranked_at(s, w, y));
        lemma_parent_has_last(s, w, z);
    }
}

/// the local facts `detach_from_siblings(f..l)` relies on (all consequences of well-formedness)
pub open spec fn detach_facts<T>(s: Seq<Node<T>>, f: int, l: int) -> bool {
    let p = s[f].parent;
    let a = s[f].previous_sibling;
    let b = s[l].next_sibling;
    &&& p is Some ==> {
        let pi = p->0.idx();
        &&& 0 <= pi < s.len() && !s[pi].stamp.removed() && pi != f && pi != l
        &&& (s[pi].first_child is Some) == (s[pi].last_child is Some)
        &&& (a is Some || b is Some) ==> s[pi].first_child is Some
        &&& s[pi].first_child is Some ==> {
            let x = s[pi].first_child->0.idx();
            0 <= x < s.len() && s[x].parent == p && s[x].previous_sibling is None && (a is Some ==> x != f) && (b is Some ==> x
                != b->0.idx())
        }
        &&& s[pi].last_child is Some ==> {
            let y = s[pi].last_child->0.idx();
            0 <= y < s.len() && s[y].parent == p && s[y].next_sibling is None && (b is Some ==> y != l) && (a is Some ==> y
                != a->0.idx())
        }
        &&& a is None ==> is_me(s, f, s[pi].first_child)
        &&& b is None ==> is_me(s, l, s[pi].last_child)
    }
    &&& a is Some ==> {
        let ai = a->0.idx();
        0 <= ai < s.len() && !s[ai].stamp.removed() && s[ai].parent == p && ai != f && is_me(s, f, s[ai].next_sibling)
    }
    &&& b is Some ==> {
        let bi = b->0.idx();
        0 <= bi < s.len() && !s[bi].stamp.removed() && s[bi].parent == p && bi != l && is_me(s, l, s[bi].previous_sibling)
    }
}

pub proof fn lemma_detach_facts<T>(s: Seq<Node<T>>, w: Ranks, f: int, l: int)
    // @props C05 C03
    requires
        links_ok(s),
        ranked(s, w),
        0 <= f < s.len(),
        0 <= l < s.len(),
        s[f].parent == s[l].parent,
    ensures
        detach_facts(s, f, l),
{
    reveal(node_ok);
    assert(node_ok(s, f));
    assert(node_ok(s, l));
    let p = s[f].parent;
    let a = s[f].previous_sibling;
    let b = s[l].next_sibling;
    if a is Some {
        assert(node_ok(s, a->0.idx()));
    }
    if b is Some {
        assert(node_ok(s, b->0.idx()));
    }
    if p is Some {
        let pi = p->0.idx();
        assert(node_ok(s, pi));
        lemma_parent_has_first(s, w, f);
        lemma_parent_has_last(s, w, l);
        if s[pi].first_child is Some {
            let x = s[pi].first_child->0.idx();
            assert(node_ok(s, x));
            lemma_id_eq(s[x].parent->0, p->0);
        }
        if s[pi].last_child is Some {
            let y = s[pi].last_child->0.idx();
            assert(node_ok(s, y));
            lemma_id_eq(s[y].parent->0, p->0);
        }
    }
}

/// exact effect of `detach(x)` (C03): x becomes a parentless, sibling-less root, the gap it
/// leaves is closed, and nothing else changes
pub open spec fn detach_post<T>(o: Seq<Node<T>>, n: Seq<Node<T>>, x: int) -> bool {
    let p = o[x].parent;
    let a = o[x].previous_sibling;
    let b = o[x].next_sibling;
    &&& n.len() == o.len()
    &&& forall|i: int|
        0 <= i < o.len() ==> {
            &&& (#[trigger] n[i]).stamp == o[i].stamp && n[i].data == o[i].data
            &&& n[i].parent == (if i == x {
                None
            } else {
                o[i].parent
            })
            &&& n[i].previous_sibling == (if i == x {
                None
            } else if b is Some && i == b->0.idx() {
                a
            } else {
                o[i].previous_sibling
            })
            &&& n[i].next_sibling == (if i == x {
                None
            } else if a is Some && i == a->0.idx() {
                b
            } else {
                o[i].next_sibling
            })
            &&& n[i].first_child == (if p is Some && i == p->0.idx() && a is None {
                b
            } else {
                o[i].first_child
            })
            &&& n[i].last_child == (if p is Some && i == p->0.idx() && b is None {
                a
            } else {
                o[i].last_child
            })
        }
}

pub proof fn lemma_neighbors_distinct<T>(s: Seq<Node<T>>, w: Ranks, x: int)
    // @props C05 C02
    requires
        links_ok(s),
        ranked(s, w),
        0 <= x < s.len(),
    ensures
        s[x].previous_sibling is Some ==> s[x].previous_sibling->0.idx() != x,
        s[x].next_sibling is Some ==> s[x].next_sibling->0.idx() != x,
        s[x].previous_sibling is Some && s[x].next_sibling is Some ==> s[x].previous_sibling->0.idx() != s[x].next_sibling->0.idx(),
        s[x].parent is Some ==> s[x].parent->0.idx() != x,
{
    reveal(node_ok);
    assert(node_ok(s, x));
    assert(ranked_at(s, w, x));
    if s[x].previous_sibling is Some {
        let y = s[x].previous_sibling->0.idx();
        assert(node_ok(s, y));
        assert(ranked_at(s, w, y));
    }
}

/// C01/C02 across detach: the same rank witness keeps working
#[verifier::spinoff_prover]
#[verifier::rlimit(200)]
pub proof fn lemma_detach_wf<T>(o: Seq<Node<T>>, n: Seq<Node<T>>, x: int, w: Ranks)
    // @props C01 C02
    requires
        links_ok(o),
        ranked(o, w),
        0 <= x < o.len(),
        detach_post(o, n, x),
    ensures
        links_ok(n),
        ranked(n, w),
{
    reveal(node_ok);
    assert(node_ok(o, x));
    assert(ranked_at(o, w, x));
    if o[x].previous_sibling is Some {
        assert(node_ok(o, o[x].previous_sibling->0.idx()));
        assert(ranked_at(o, w, o[x].previous_sibling->0.idx()));
    }
    assert forall|i: int| 0 <= i < n.len() implies #[trigger] ranked_at(n, w, i) by {
        assert(ranked_at(o, w, i));
        assert(node_ok(o, i));
    }
    assert forall|i: int| 0 <= i < n.len() implies #[trigger] node_ok(n, i) by {
        assert(node_ok(o, i));
        if o[i].parent is Some {
            assert(node_ok(o, o[i].parent->0.idx()));
        }
        if o[i].previous_sibling is Some {
            assert(node_ok(o, o[i].previous_sibling->0.idx()));
        }
        if o[i].next_sibling is Some {
            assert(node_ok(o, o[i].next_sibling->0.idx()));
        }
        if o[i].first_child is Some {
            assert(node_ok(o, o[i].first_child->0.idx()));
        }
        if o[i].last_child is Some {
            assert(node_ok(o, o[i].last_child->0.idx()));
        }
        if n[i].first_child is Some {
            assert(node_ok(o, n[i].first_child->0.idx()));
        }
        if n[i].last_child is Some {
            assert(node_ok(o, n[i].last_child->0.idx()));
        }
    }
}

/// a pure relinking step keeps the payload-side invariants
pub proof fn lemma_relink_wf<T>(o: Arena<T>, n: Arena<T>)
    // @props C07 C08
    requires
        o.wf(),
        links_ok(n.nodes@),
        n.acyclic(),
        payload_frame(o.nodes@, n.nodes@),
        n.first_free_slot == o.first_free_slot,
        n.last_free_slot == o.last_free_slot,
    ensures
        n.wf(),
{
    lemma_payload_frame_wf(o.nodes@, n.nodes@, o.first_free_slot, o.last_free_slot);
    let fl = choose|fl: Seq<int>| free_list(o.nodes@, o.first_free_slot, o.last_free_slot, fl);
    assert(free_list(n.nodes@, n.first_free_slot, n.last_free_slot, fl));
}

/// what `transplant` relies on (every clause is checked by one of its debug assertions or is
/// needed for one of them to hold afterwards)
pub open spec fn transplant_pre<T>(s: Seq<Node<T>>, c: Seq<int>, f: NodeId, l: NodeId, parent: Option<NodeId>, prev: Option<NodeId>, next: Option<NodeId>) -> bool {
    &&& is_chain(s, f.idx(), c) && c[c.len() - 1] == l.idx()
    &&& !s[f.idx()].stamp.removed() && !s[l.idx()].stamp.removed()
    &&& parent is Some ==> {
        let pi = parent->0.idx();
        &&& 0 <= pi < s.len() && !s[pi].stamp.removed() && !c.contains(pi)
        &&& (s[pi].first_child is Some) == (s[pi].last_child is Some)
        &&& prev is Some ==> s[pi].first_child is Some
        &&& next is Some ==> s[pi].last_child is Some
        &&& s[pi].first_child is Some ==> {
            let z = s[pi].first_child->0.idx();
            0 <= z < s.len() && !c.contains(z) && s[z].parent == parent && s[z].previous_sibling is None
        }
        &&& s[pi].last_child is Some ==> {
            let y = s[pi].last_child->0.idx();
            0 <= y < s.len() && !c.contains(y) && s[y].parent == parent && s[y].next_sibling is None
        }
    }
    &&& prev is Some ==> {
        let a = prev->0.idx();
        0 <= a < s.len() && !s[a].stamp.removed() && !c.contains(a) && s[a].parent == parent && s[a].next_sibling == next
    }
    &&& next is Some ==> {
        let b = next->0.idx();
        0 <= b < s.len() && !s[b].stamp.removed() && !c.contains(b) && s[b].parent == parent && s[b].previous_sibling == prev
    }
    &&& prev is Some && next is Some ==> prev->0.idx() != next->0.idx()
}

/// exact effect of `transplant`, mirroring the code
pub open spec fn transplant_post<T>(o: Seq<Node<T>>, n: Seq<Node<T>>, c: Seq<int>, f: NodeId, l: NodeId, parent: Option<NodeId>, prev: Option<NodeId>, next: Option<NodeId>) -> bool {
    &&& n.len() == o.len()
    &&& forall|i: int|
        0 <= i < o.len() ==> {
            &&& (#[trigger] n[i]).stamp == o[i].stamp && n[i].data == o[i].data
            &&& n[i].parent == (if c.contains(i) {
                parent
            } else {
                o[i].parent
            })
            &&& n[i].previous_sibling == (if i == f.idx() {
                prev
            } else if next is Some && i == next->0.idx() {
                Some(l)
            } else {
                o[i].previous_sibling
            })
            &&& n[i].next_sibling == (if i == l.idx() {
                next
            } else if prev is Some && i == prev->0.idx() {
                Some(f)
            } else {
                o[i].next_sibling
            })
            &&& n[i].first_child == (if parent is Some && i == parent->0.idx() {
                if prev is Some {
                    if o[i].first_child is Some {
                        o[i].first_child
                    } else {
                        prev
                    }
                } else {
                    Some(f)
                }
            } else {
                o[i].first_child
            })
            &&& n[i].last_child == (if parent is Some && i == parent->0.idx() {
                if next is Some {
                    if o[i].last_child is Some {
                        o[i].last_child
                    } else {
                        Some(f)
                    }
                } else {
                    Some(l)
                }
            } else {
                o[i].last_child
            })
        }
}

// ---- inserting a detached root at a gap (C01, C02, C03) --------------------------------------
/// (parent, prev, next) is a position in the forest: two adjacent siblings, or an end of a
/// child list, or an end of a top-level chain
pub open spec fn is_gap<T>(s: Seq<Node<T>>, parent: Option<NodeId>, prev: Option<NodeId>, next: Option<NodeId>) -> bool {
    &&& prev is Some ==> tgt_ok(s, prev) && s[prev->0.idx()].parent == parent && s[prev->0.idx()].next_sibling == next
    &&& next is Some ==> tgt_ok(s, next) && s[next->0.idx()].parent == parent && s[next->0.idx()].previous_sibling == prev
    &&& parent is Some ==> tgt_ok(s, parent) && (prev is None ==> s[parent->0.idx()].first_child == next) && (next is None
        ==> s[parent->0.idx()].last_child == prev)
}

pub open spec fn is_root<T>(s: Seq<Node<T>>, x: int) -> bool {
    s[x].parent is None && s[x].previous_sibling is None && s[x].next_sibling is None
}

pub open spec fn not_at(x: int, l: Option<NodeId>) -> bool {
    l is Some ==> l->0.idx() != x
}

/// exact effect (C03) of inserting the detached root `x` at the gap: x gets the requested
/// parent and neighbours, they get x, and nothing else changes
pub open spec fn insert_post<T>(o: Seq<Node<T>>, n: Seq<Node<T>>, x: NodeId, parent: Option<NodeId>, prev: Option<NodeId>, next: Option<NodeId>) -> bool {
    &&& n.len() == o.len()
    &&& forall|i: int|
        0 <= i < o.len() ==> {
            &&& (#[trigger] n[i]).stamp == o[i].stamp && n[i].data == o[i].data
            &&& n[i].parent == (if i == x.idx() {
                parent
            } else {
                o[i].parent
            })
            &&& n[i].previous_sibling == (if i == x.idx() {
                prev
            } else if next is Some && i == next->0.idx() {
                Some(x)
            } else {
                o[i].previous_sibling
            })
            &&& n[i].next_sibling == (if i == x.idx() {
                next
            } else if prev is Some && i == prev->0.idx() {
                Some(x)
            } else {
                o[i].next_sibling
            })
            &&& n[i].first_child == (if parent is Some && i == parent->0.idx() && prev is None {
                Some(x)
            } else {
                o[i].first_child
            })
            &&& n[i].last_child == (if parent is Some && i == parent->0.idx() && next is None {
                Some(x)
            } else {
                o[i].last_child
            })
        }
}

/// r is y or an ancestor of y (evaluated along the parent links, bounded by the depth rank)
pub open spec fn in_sub<T>(s: Seq<Node<T>>, w: Ranks, r: int, y: int) -> bool
    decreases (w.depth)(y),
{
    y == r || (0 <= y < s.len() && s[y].parent is Some && (w.depth)(s[y].parent->0.idx()) < (w.depth)(y) && in_sub(
        s,
        w,
        r,
        s[y].parent->0.idx(),
    ))
}

pub proof fn lemma_gap_transplant_pre<T>(s: Seq<Node<T>>, w: Ranks, x: NodeId, parent: Option<NodeId>, prev: Option<NodeId>, next: Option<NodeId>)
    // @props C05 C03
    requires
        links_ok(s),
        ranked(s, w),
        0 <= x.idx() < s.len(),
        !s[x.idx()].stamp.removed(),
        is_root(s, x.idx()),
        is_gap(s, parent, prev, next),
        not_at(x.idx(), parent),
        not_at(x.idx(), prev),
        not_at(x.idx(), next),
    ensures
        transplant_pre(s, seq![x.idx()], x, x, parent, prev, next),
{
    reveal(node_ok);
    let c = seq![x.idx()];
    assert(is_chain(s, x.idx(), c));
    assert forall|i: int| c.contains(i) implies i == x.idx() by {}
    if prev is Some {
        assert(node_ok(s, prev->0.idx()));
        assert(ranked_at(s, w, prev->0.idx()));
    }
    if next is Some {
        assert(node_ok(s, next->0.idx()));
    }
    if parent is Some {
        let pi = parent->0.idx();
        assert(node_ok(s, pi));
        if prev is Some {
            lemma_parent_has_first(s, w, prev->0.idx());
        }
        if next is Some {
            lemma_parent_has_last(s, w, next->0.idx());
        }
        if s[pi].first_child is Some {
            let z = s[pi].first_child->0.idx();
            assert(node_ok(s, z));
            lemma_id_eq(s[z].parent->0, parent->0);
        }
        if s[pi].last_child is Some {
            let y = s[pi].last_child->0.idx();
            assert(node_ok(s, y));
            lemma_id_eq(s[y].parent->0, parent->0);
        }
    }
}

#[verifier::spinoff_prover]
#[verifier::rlimit(200)]
pub proof fn lemma_insert_links<T>(o: Seq<Node<T>>, n: Seq<Node<T>>, w: Ranks, x: NodeId, parent: Option<NodeId>, prev: Option<NodeId>, next: Option<NodeId>)
    // @props C01 C03
    requires
        links_ok(o),
        ranked(o, w),
        0 <= x.idx() < o.len(),
        o[x.idx()].stamp == x.stamp,
        !x.stamp.removed(),
        is_root(o, x.idx()),
        is_gap(o, parent, prev, next),
        not_at(x.idx(), parent),
        not_at(x.idx(), prev),
        not_at(x.idx(), next),
        transplant_post(o, n, seq![x.idx()], x, x, parent, prev, next),
    ensures
        links_ok(n),
        insert_post(o, n, x, parent, prev, next),
{
    reveal(node_ok);
    let c = seq![x.idx()];
    let xi = x.idx();
    assert(c.contains(xi)) by {
        assert(c[0] == xi);
    }
    assert forall|i: int| c.contains(i) implies i == xi by {}
    assert(node_ok(o, xi));
    if prev is Some {
        assert(node_ok(o, prev->0.idx()));
        assert(ranked_at(o, w, prev->0.idx()));
    }
    if next is Some {
        assert(node_ok(o, next->0.idx()));
    }
    if parent is Some {
        let pi = parent->0.idx();
        assert(node_ok(o, pi));
        if prev is Some {
            lemma_parent_has_first(o, w, prev->0.idx());
        }
        if next is Some {
            lemma_parent_has_last(o, w, next->0.idx());
        }
    }
    assert(insert_post(o, n, x, parent, prev, next));
    assert forall|i: int| 0 <= i < n.len() implies #[trigger] node_ok(n, i) by {
        assert(node_ok(o, i));
        if o[i].parent is Some {
            assert(node_ok(o, o[i].parent->0.idx()));
        }
        if o[i].previous_sibling is Some {
            assert(node_ok(o, o[i].previous_sibling->0.idx()));
        }
        if o[i].next_sibling is Some {
            assert(node_ok(o, o[i].next_sibling->0.idx()));
        }
        if o[i].first_child is Some {
            assert(node_ok(o, o[i].first_child->0.idx()));
        }
        if o[i].last_child is Some {
            assert(node_ok(o, o[i].last_child->0.idx()));
        }
    }
}

pub proof fn lemma_insert_ranks<T>(o: Seq<Node<T>>, n: Seq<Node<T>>, w: Ranks, x: NodeId, parent: Option<NodeId>, prev: Option<NodeId>, next: Option<NodeId>)
    // @props C02
    requires
        links_ok(o),
        ranked(o, w),
        0 <= x.idx() < o.len(),
        !o[x.idx()].stamp.removed(),
        is_root(o, x.idx()),
        is_gap(o, parent, prev, next),
        not_at(x.idx(), parent),
        not_at(x.idx(), prev),
        not_at(x.idx(), next),
        parent is Some ==> (w.depth)(x.idx()) > (w.depth)(parent->0.idx()),
        insert_post(o, n, x, parent, prev, next),
    ensures
        exists|w2: Ranks| ranked(n, w2),
{
    reveal(node_ok);
    let xi = x.idx();
    let t: int = if next is Some { (w.rem)(next->0.idx()) as int } else { -1 };
    let r: int = (w.rem)(xi) as int + 1;
    let tp: int = if prev is Some { (w.pos)(prev->0.idx()) as int } else { -1 };
    let rp: int = (w.pos)(xi) as int + 1;
    let rem2 = |i: int| -> nat {
        if i == xi {
            (t + 1 + (w.rem)(xi)) as nat
        } else if (w.rem)(i) > t {
            ((w.rem)(i) + r + 1) as nat
        } else {
            (w.rem)(i)
        }
    };
    let pos2 = |i: int| -> nat {
        if i == xi {
            (tp + 1 + (w.pos)(xi)) as nat
        } else if (w.pos)(i) > tp {
            ((w.pos)(i) + rp + 1) as nat
        } else {
            (w.pos)(i)
        }
    };
    let w2 = Ranks { depth: w.depth, rem: rem2, pos: pos2, bound: w.bound };
    assert(node_ok(o, xi));
    if prev is Some {
        assert(node_ok(o, prev->0.idx()));
        assert(ranked_at(o, w, prev->0.idx()));
    }
    if next is Some {
        assert(node_ok(o, next->0.idx()));
    }
    assert forall|i: int| 0 <= i < n.len() implies #[trigger] ranked_at(n, w2, i) by {
        assert(ranked_at(o, w, i));
        assert(node_ok(o, i));
        if o[i].next_sibling is Some {
            let j = o[i].next_sibling->0.idx();
            assert(node_ok(o, j));
            assert(j != xi);
        }
    }
    assert(ranked(n, w2));
}

/// re-rank the subtree of the detached root x below p (needs: x is not an ancestor of p)
pub proof fn lemma_shift_subtree<T>(s: Seq<Node<T>>, w: Ranks, x: int, p: int)
    // @props C02 C05
    requires
        ranked(s, w),
        0 <= x < s.len(),
        0 <= p < s.len(),
        s[x].parent is None,
        !in_sub(s, w, x, p),
    ensures
        exists|w2: Ranks| ranked(s, w2) && (w2.depth)(x) > (w2.depth)(p),
{
    let d = (w.depth)(p);
    let depth2 = |y: int| -> nat {
        if in_sub(s, w, x, y) {
            ((w.depth)(y) + d + 1) as nat
        } else {
            (w.depth)(y)
        }
    };
    let w2 = Ranks { depth: depth2, rem: w.rem, pos: w.pos, bound: (2 * w.bound + 1) as nat };
    assert(ranked_at(s, w, p));
    assert(in_sub(s, w, x, x));
    assert forall|i: int| 0 <= i < s.len() implies #[trigger] ranked_at(s, w2, i) by {
        assert(ranked_at(s, w, i));
        if s[i].parent is Some {
            let q = s[i].parent->0.idx();
            // in_sub(x, i) unfolds to: i == x, or in_sub(x, q)
            assert(in_sub(s, w, x, i) == (i == x || in_sub(s, w, x, q)));
        }
    }
    assert(ranked(s, w2));
}

// ---- ancestors (C02, C05) ---------------------------------------------------------------------
/// slot a is slot y or one of its ancestors
pub open spec fn anc<T>(s: Seq<Node<T>>, a: int, y: int) -> bool {
    exists|w: Ranks| ranked(s, w) && in_sub(s, w, a, y)
}

pub proof fn lemma_in_sub_indep<T>(s: Seq<Node<T>>, w1: Ranks, w2: Ranks, r: int, y: int)
    // @props C05 C02
    requires
        ranked(s, w1),
        ranked(s, w2),
    ensures
        in_sub(s, w1, r, y) == in_sub(s, w2, r, y),
    decreases (w1.depth)(y),
{
    if y != r && 0 <= y < s.len() && s[y].parent is Some {
        assert(ranked_at(s, w1, y));
        assert(ranked_at(s, w2, y));
        lemma_in_sub_indep(s, w1, w2, r, s[y].parent->0.idx());
    }
}

pub proof fn lemma_anc_iff<T>(s: Seq<Node<T>>, w: Ranks, a: int, y: int)
    // @props C05 C02
    requires
        ranked(s, w),
    ensures
        anc(s, a, y) == in_sub(s, w, a, y),
{
    if anc(s, a, y) {
        let w1 = choose|w1: Ranks| ranked(s, w1) && in_sub(s, w1, a, y);
        lemma_in_sub_indep(s, w1, w, a, y);
    }
}

/// cutting the parent link of r does not change who has r as an ancestor
pub proof fn lemma_in_sub_frame<T>(o: Seq<Node<T>>, n: Seq<Node<T>>, w: Ranks, r: int, y: int)
    // @props C05 C02
    requires
        n.len() == o.len(),
        forall|i: int| 0 <= i < o.len() && i != r ==> (#[trigger] n[i]).parent == o[i].parent,
    ensures
        in_sub(n, w, r, y) == in_sub(o, w, r, y),
    decreases (w.depth)(y),
{
    if y != r && 0 <= y < o.len() && o[y].parent is Some && (w.depth)(o[y].parent->0.idx()) < (w.depth)(y) {
        lemma_in_sub_frame(o, n, w, r, o[y].parent->0.idx());
    }
}

/// every link of a live node names a live node of the current generation
pub proof fn lemma_links_live<T>(s: Seq<Node<T>>, i: int)
    // @props C01 C12
    requires
        links_ok(s),
        0 <= i < s.len(),
    ensures
        tgt_ok(s, s[i].parent) && tgt_ok(s, s[i].previous_sibling) && tgt_ok(s, s[i].next_sibling) && tgt_ok(s, s[i].first_child)
            && tgt_ok(s, s[i].last_child),
        s[i].stamp.removed() ==> no_links(s[i]),
{
    reveal(node_ok);
    assert(node_ok(s, i));
}

/// the position "after the last child of p" is a gap
pub proof fn lemma_gap_at_end<T>(s: Seq<Node<T>>, p: NodeId)
    // @props C05 C03 C12
    requires
        links_ok(s),
        0 <= p.idx() < s.len(),
        s[p.idx()].stamp == p.stamp,
        !p.stamp.removed(),
    ensures
        is_gap(s, Some(p), s[p.idx()].last_child, None),
        is_gap(s, Some(p), None, s[p.idx()].first_child),
        s[p.idx()].last_child is Some ==> s[s[p.idx()].last_child->0.idx()].parent is Some,
        s[p.idx()].first_child is Some ==> s[s[p.idx()].first_child->0.idx()].parent is Some,
{
    reveal(node_ok);
    assert(node_ok(s, p.idx()));
    if s[p.idx()].last_child is Some {
        let c = s[p.idx()].last_child->0.idx();
        assert(node_ok(s, c));
        lemma_id_eq(s[c].parent->0, p);
    }
    if s[p.idx()].first_child is Some {
        let c = s[p.idx()].first_child->0.idx();
        assert(node_ok(s, c));
        lemma_id_eq(s[c].parent->0, p);
    }
}

/// C05: when a checked insert must refuse
pub open spec fn insert_impossible<T>(s: Seq<Node<T>>, target: NodeId, moved: NodeId) -> bool {
    moved == target || s[target.idx()].stamp.removed() || s[moved.idx()].stamp.removed() || anc(s, moved.idx(), target.idx())
}

/// invariant of the `ancestors().any(..)` loops of the checked inserts
pub open spec fn anc_loop_inv<T>(s: Seq<Node<T>>, w: Ranks, t: int, m: int, cur: Option<NodeId>, any: bool) -> bool {
    &&& cur is Some ==> tgt_ok(s, cur)
    &&& any ==> in_sub(s, w, m, t)
    &&& !any ==> (in_sub(s, w, m, t) == (cur is Some && in_sub(s, w, m, cur->0.idx())))
}

pub open spec fn anc_loop_measure(w: Ranks, cur: Option<NodeId>) -> nat {
    if cur is Some {
        ((w.depth)(cur->0.idx()) + 1) as nat
    } else {
        0
    }
}

pub proof fn lemma_anc_loop_step<T>(s: Seq<Node<T>>, w: Ranks, t: int, moved: NodeId, cur: NodeId)
    // @props C02 C05
    requires
        links_ok(s),
        ranked(s, w),
        anc_loop_inv(s, w, t, moved.idx(), Some(cur), false),
        0 <= moved.idx() < s.len(),
        s[moved.idx()].stamp == moved.stamp,
    ensures
        moved == cur ==> in_sub(s, w, moved.idx(), t),
        tgt_ok(s, s[cur.idx()].parent),
        moved != cur ==> anc_loop_inv(s, w, t, moved.idx(), s[cur.idx()].parent, false),
        anc_loop_measure(w, s[cur.idx()].parent) < anc_loop_measure(w, Some(cur)),
{
    lemma_links_live(s, cur.idx());
    assert(ranked_at(s, w, cur.idx()));
    if moved != cur {
        if moved.idx() == cur.idx() {
            lemma_id_eq(moved, cur);
        }
    }
}

/// the positions "right after x" and "right before x" are gaps
pub proof fn lemma_gap_around<T>(s: Seq<Node<T>>, w: Ranks, x: NodeId, r: int)
    // @props C05 C03
    requires
        links_ok(s),
        ranked(s, w),
        0 <= x.idx() < s.len(),
        s[x.idx()].stamp == x.stamp,
        !x.stamp.removed(),
        0 <= r < s.len(),
        is_root(s, r),
        r != x.idx(),
        !in_sub(s, w, r, x.idx()),
    ensures
        is_gap(s, s[x.idx()].parent, Some(x), s[x.idx()].next_sibling),
        is_gap(s, s[x.idx()].parent, s[x.idx()].previous_sibling, Some(x)),
        not_at(r, s[x.idx()].parent),
        not_at(r, s[x.idx()].next_sibling),
        not_at(r, s[x.idx()].previous_sibling),
        s[x.idx()].parent is Some ==> !in_sub(s, w, r, s[x.idx()].parent->0.idx()),
{
    reveal(node_ok);
    let xi = x.idx();
    assert(node_ok(s, xi));
    assert(node_ok(s, r));
    assert(ranked_at(s, w, xi));
    if s[xi].next_sibling is Some {
        let b = s[xi].next_sibling->0.idx();
        assert(node_ok(s, b));
        lemma_id_eq(s[b].previous_sibling->0, x);
    }
    if s[xi].previous_sibling is Some {
        let a = s[xi].previous_sibling->0.idx();
        assert(node_ok(s, a));
        lemma_id_eq(s[a].next_sibling->0, x);
    }
    if s[xi].parent is Some {
        let p = s[xi].parent->0.idx();
        assert(node_ok(s, p));
        assert(in_sub(s, w, r, p) ==> in_sub(s, w, r, xi));
        assert(in_sub(s, w, r, r));
        if s[xi].next_sibling is None {
            lemma_id_eq(s[p].last_child->0, x);
        }
        if s[xi].previous_sibling is None {
            lemma_id_eq(s[p].first_child->0, x);
        }
    }
}

/// a childless node is nobody's ancestor
pub proof fn lemma_childless_not_anc<T>(s: Seq<Node<T>>, w: Ranks, x: int, y: int)
    // @props C02 C05
    requires
        links_ok(s),
        ranked(s, w),
        0 <= x < s.len(),
        s[x].first_child is None,
        x != y,
    ensures
        !in_sub(s, w, x, y),
    decreases (w.depth)(y),
{
    if 0 <= y < s.len() && s[y].parent is Some && (w.depth)(s[y].parent->0.idx()) < (w.depth)(y) {
        let q = s[y].parent->0.idx();
        lemma_links_live(s, y);
        if q == x {
            if !s[y].stamp.removed() {
                lemma_parent_has_first(s, w, y);
            }
        } else {
            lemma_childless_not_anc(s, w, x, q);
        }
    }
}

/// what `new_node(data)` does to an arena (C07); `append_value` is stated in terms of it (C03)
pub open spec fn alloc_post<T>(o: Arena<T>, n: Arena<T>, r: NodeId, data: T) -> bool {
    &&& n.live(r) && n.at(r).data == NodeData::Data(data) && no_links(n.at(r))
    &&& r.idx() < o.nodes@.len() ==> o.nodes@[r.idx()].stamp.can_reuse() && r.stamp.0 as int == o.nodes@[r.idx()].stamp.hw() + 1
        && n.nodes@.len() == o.nodes@.len()
    &&& r.idx() >= o.nodes@.len() ==> r.idx() == o.nodes@.len() && r.stamp.0 == 0 && n.nodes@.len() == o.nodes@.len() + 1
    &&& forall|i: int| 0 <= i < o.nodes@.len() && i != r.idx() ==> n.nodes@[i] == o.nodes@[i]
    &&& forall|fl: Seq<int>| #[trigger]
        free_list(o.nodes@, o.first_free_slot, o.last_free_slot, fl) ==> (if fl.len() > 0 {
            r.idx() == fl[0] && free_list(n.nodes@, n.first_free_slot, n.last_free_slot, fl.drop_first())
        } else {
            r.idx() == o.nodes@.len() && free_list(n.nodes@, n.first_free_slot, n.last_free_slot, fl)
        })
}

// ---- sibling chains (C01: "the chain made of exactly the nodes that name it as parent") ------
pub open spec fn chain_from<T>(s: Seq<Node<T>>, w: Ranks, i: int) -> Seq<int>
    decreases (w.rem)(i),
{
    if 0 <= i < s.len() && s[i].next_sibling is Some && (w.rem)(s[i].next_sibling->0.idx()) < (w.rem)(i) {
        seq![i] + chain_from(s, w, s[i].next_sibling->0.idx())
    } else {
        seq![i]
    }
}

pub proof fn lemma_chain_from<T>(s: Seq<Node<T>>, w: Ranks, i: int)
    // @props C01
    requires
        links_ok(s),
        ranked(s, w),
        0 <= i < s.len(),
        !s[i].stamp.removed(),
    ensures
        is_chain(s, i, chain_from(s, w, i)),
        forall|k: int|
            0 <= k < chain_from(s, w, i).len() ==> {
                let y = #[trigger] chain_from(s, w, i)[k];
                &&& !s[y].stamp.removed()
                &&& s[y].parent == s[i].parent
                &&& (w.rem)(y) <= (w.rem)(i)
                &&& (w.pos)(y) >= (w.pos)(i)
                &&& (k > 0 ==> (w.pos)(y) > (w.pos)(i))
            },
    decreases (w.rem)(i),
{
    reveal(node_ok);
    assert(node_ok(s, i));
    assert(ranked_at(s, w, i));
    let c = chain_from(s, w, i);
    if s[i].next_sibling is Some {
        let j = s[i].next_sibling->0.idx();
        assert(node_ok(s, j));
        lemma_chain_from(s, w, j);
        let d = chain_from(s, w, j);
        assert(c =~= seq![i] + d);
        assert forall|k: int| 0 <= k < c.len() implies 0 <= #[trigger] c[k] < s.len() by {
            if k > 0 {
                assert(c[k] == d[k - 1]);
            }
        }
        assert forall|k: int| 0 <= k < c.len() - 1 implies (#[trigger] s[c[k]]).next_sibling is Some && s[c[k]].next_sibling->0.idx()
            == c[k + 1] by {
            if k > 0 {
                assert(c[k] == d[k - 1]);
                assert(c[k + 1] == d[k]);
            } else {
                assert(c[1] == d[0]);
            }
        }
        assert(c[c.len() - 1] == d[d.len() - 1]);
        assert forall|k: int| 0 <= k < c.len() implies {
            let y = #[trigger] c[k];
            &&& !s[y].stamp.removed()
            &&& s[y].parent == s[i].parent
            &&& (w.rem)(y) <= (w.rem)(i)
            &&& (w.pos)(y) >= (w.pos)(i)
            &&& (k > 0 ==> (w.pos)(y) > (w.pos)(i))
        } by {
            if k > 0 {
                assert(c[k] == d[k - 1]);
            }
        }
    } else {
        assert(c =~= seq![i]);
    }
}

/// C01: the children of p are exactly the chain from p's first child, and it ends in p's last child
pub proof fn lemma_children_chain<T>(s: Seq<Node<T>>, w: Ranks, p: int)
    // @props C01 C04
    requires
        links_ok(s),
        ranked(s, w),
        0 <= p < s.len(),
        !s[p].stamp.removed(),
        s[p].first_child is Some,
    ensures
        ({
            let c = chain_from(s, w, s[p].first_child->0.idx());
            &&& is_chain(s, s[p].first_child->0.idx(), c)
            &&& s[p].last_child is Some && c[c.len() - 1] == s[p].last_child->0.idx()
            &&& forall|k: int| 0 <= k < c.len() ==> !s[#[trigger] c[k]].stamp.removed() && is_me(s, p, s[c[k]].parent)
            &&& forall|i: int|
                0 <= i < s.len() && !(#[trigger] s[i]).stamp.removed() && s[i].parent is Some && s[i].parent->0.idx() == p
                    ==> c.contains(i)
        }),
{
    reveal(node_ok);
    assert(node_ok(s, p));
    let f = s[p].first_child->0.idx();
    assert(node_ok(s, f));
    lemma_chain_from(s, w, f);
    let c = chain_from(s, w, f);
    let e = c[c.len() - 1];
    assert(node_ok(s, e));
    assert(s[e].parent == s[f].parent);
    assert forall|i: int|
        0 <= i < s.len() && !(#[trigger] s[i]).stamp.removed() && s[i].parent is Some && s[i].parent->0.idx() == p implies c.contains(
        i,
    ) by {
        lemma_child_on_chain(s, w, p, i);
    }
}

pub proof fn lemma_child_on_chain<T>(s: Seq<Node<T>>, w: Ranks, p: int, i: int)
    // @props C01 C04
    requires
        links_ok(s),
        ranked(s, w),
        0 <= p < s.len(),
        !s[p].stamp.removed(),
        s[p].first_child is Some,
        0 <= i < s.len(),
        !s[i].stamp.removed(),
        s[i].parent is Some,
        s[i].parent->0.idx() == p,
    ensures
        chain_from(s, w, s[p].first_child->0.idx()).contains(i),
    decreases (w.pos)(i),
{
    reveal(node_ok);
    let f = s[p].first_child->0.idx();
    let c = chain_from(s, w, f);
    assert(node_ok(s, i));
    assert(node_ok(s, p));
    assert(node_ok(s, f));
    lemma_chain_from(s, w, f);
    if s[i].previous_sibling is None {
        assert(is_me(s, i, s[p].first_child));
        assert(c[0] == i);
    } else {
        let z = s[i].previous_sibling->0.idx();
        assert(node_ok(s, z));
        assert(ranked_at(s, w, z));
        lemma_child_on_chain(s, w, p, z);
        let k = choose|k: int| 0 <= k < c.len() && c[k] == z;
        assert(s[c[k]].next_sibling is Some);
        assert(k < c.len() - 1);
        assert(c[k + 1] == i);
    }
}

// ---- remove: the children of x take x's place (C04) ---------------------------------------------
/// after `detach(x)` the place x occupied is a gap between its former neighbours
pub proof fn lemma_gap_after_detach<T>(o: Seq<Node<T>>, n: Seq<Node<T>>, w: Ranks, x: int)
    // @props C04 C05
    requires
        links_ok(o),
        ranked(o, w),
        0 <= x < o.len(),
        detach_post(o, n, x),
    ensures
        is_gap(n, o[x].parent, o[x].previous_sibling, o[x].next_sibling),
        not_at(x, o[x].parent),
        not_at(x, o[x].previous_sibling),
        not_at(x, o[x].next_sibling),
        o[x].parent is Some ==> (w.depth)(x) > (w.depth)(o[x].parent->0.idx()),
{
    reveal(node_ok);
    assert(node_ok(o, x));
    assert(ranked_at(o, w, x));
    lemma_neighbors_distinct(o, w, x);
    if o[x].previous_sibling is Some {
        assert(node_ok(o, o[x].previous_sibling->0.idx()));
    }
    if o[x].next_sibling is Some {
        assert(node_ok(o, o[x].next_sibling->0.idx()));
    }
    if o[x].parent is Some {
        assert(node_ok(o, o[x].parent->0.idx()));
    }
}

/// effect of moving the children chain c (fc..lc) of the detached root x into the gap (P, a, b)
pub open spec fn splice_post<T>(o: Seq<Node<T>>, n: Seq<Node<T>>, x: int, c: Seq<int>, fc: NodeId, lc: NodeId, p: Option<NodeId>, a: Option<NodeId>, b: Option<NodeId>) -> bool {
    &&& n.len() == o.len()
    &&& forall|i: int|
        0 <= i < o.len() ==> {
            &&& (#[trigger] n[i]).stamp == o[i].stamp && n[i].data == o[i].data
            &&& n[i].parent == (if c.contains(i) {
                p
            } else {
                o[i].parent
            })
            &&& n[i].previous_sibling == (if i == fc.idx() {
                a
            } else if b is Some && i == b->0.idx() {
                Some(lc)
            } else {
                o[i].previous_sibling
            })
            &&& n[i].next_sibling == (if i == lc.idx() {
                b
            } else if a is Some && i == a->0.idx() {
                Some(fc)
            } else {
                o[i].next_sibling
            })
            &&& n[i].first_child == (if i == x {
                None
            } else if p is Some && i == p->0.idx() && a is None {
                Some(fc)
            } else {
                o[i].first_child
            })
            &&& n[i].last_child == (if i == x {
                None
            } else if p is Some && i == p->0.idx() && b is None {
                Some(lc)
            } else {
                o[i].last_child
            })
        }
}

/// the facts about the children range of the detached root x that `remove` needs
pub open spec fn splice_ctx<T>(s: Seq<Node<T>>, w: Ranks, x: int, fc: NodeId, lc: NodeId, p: Option<NodeId>, a: Option<NodeId>, b: Option<NodeId>) -> bool {
    &&& links_ok(s) && ranked(s, w)
    &&& 0 <= x < s.len() && !s[x].stamp.removed() && is_root(s, x)
    &&& s[x].first_child == Some(fc) && s[x].last_child == Some(lc)
    &&& is_gap(s, p, a, b) && not_at(x, p) && not_at(x, a) && not_at(x, b)
    &&& p is Some ==> (w.depth)(x) > (w.depth)(p->0.idx())
}

#[verifier::rlimit(100)]
pub proof fn lemma_splice_pre_s<T>(s: Seq<Node<T>>, w: Ranks, x: int, fc: NodeId, lc: NodeId, p: Option<NodeId>, a: Option<NodeId>, b: Option<NodeId>)
    // @props C04 C05
    requires
        splice_ctx(s, w, x, fc, lc, p, a, b),
    ensures
        transplant_pre(s, chain_from(s, w, fc.idx()), fc, lc, p, a, b),
        s[fc.idx()].previous_sibling is None && s[lc.idx()].next_sibling is None,
        s[fc.idx()].parent == s[lc.idx()].parent,
        s[fc.idx()].parent is Some && s[fc.idx()].parent->0.idx() == x,
        forall|i: int| chain_from(s, w, fc.idx()).contains(i) ==> i != x,
{
    reveal(node_ok);
    let c = chain_from(s, w, fc.idx());
    lemma_children_chain(s, w, x);
    assert(node_ok(s, x));
    assert(node_ok(s, fc.idx()));
    assert(node_ok(s, lc.idx()));
    lemma_id_eq(s[fc.idx()].parent->0, s[lc.idx()].parent->0);
    assert(c.contains(fc.idx())) by {
        assert(c[0] == fc.idx());
    }
    assert(c.contains(lc.idx())) by {
        assert(c[c.len() - 1] == lc.idx());
    }
    // chain nodes have parent x; P, a, b, P's ends do not
    assert forall|i: int| c.contains(i) implies 0 <= i < s.len() && s[i].parent is Some && s[i].parent->0.idx() == x by {
        let k = choose|k: int| 0 <= k < c.len() && c[k] == i;
        assert(is_me(s, x, s[c[k]].parent));
    }
    if a is Some {
        assert(node_ok(s, a->0.idx()));
        assert(ranked_at(s, w, a->0.idx()));
    }
    if b is Some {
        assert(node_ok(s, b->0.idx()));
    }
    if p is Some {
        let pi = p->0.idx();
        assert(node_ok(s, pi));
        assert(ranked_at(s, w, pi));
        if a is Some {
            lemma_parent_has_first(s, w, a->0.idx());
        }
        if b is Some {
            lemma_parent_has_last(s, w, b->0.idx());
        }
        if s[pi].first_child is Some {
            let z = s[pi].first_child->0.idx();
            assert(node_ok(s, z));
            lemma_id_eq(s[z].parent->0, p->0);
        }
        if s[pi].last_child is Some {
            let y = s[pi].last_child->0.idx();
            assert(node_ok(s, y));
            lemma_id_eq(s[y].parent->0, p->0);
        }
    }
}

pub proof fn lemma_splice_pre<T>(s: Seq<Node<T>>, m: Seq<Node<T>>, w: Ranks, x: int, fc: NodeId, lc: NodeId, p: Option<NodeId>, a: Option<NodeId>, b: Option<NodeId>)
    // @props C04 C05
    requires
        splice_ctx(s, w, x, fc, lc, p, a, b),
        detach_range_post(s, m, fc.idx(), lc.idx()),
    ensures
        transplant_pre(m, chain_from(s, w, fc.idx()), fc, lc, p, a, b),
{
    let c = chain_from(s, w, fc.idx());
    lemma_splice_pre_s(s, w, x, fc, lc, p, a, b);
    assert(c[0] == fc.idx());
    // m differs from s only in x's first/last child
    assert forall|i: int| 0 <= i < s.len() && i != x implies #[trigger] m[i] == s[i] by {}
    assert forall|i: int| 0 <= i < s.len() implies (#[trigger] m[i]).stamp == s[i].stamp && m[i].parent == s[i].parent && m[i].previous_sibling
        == s[i].previous_sibling && m[i].next_sibling == s[i].next_sibling by {}
    assert(is_chain(m, fc.idx(), c)) by {
        assert forall|k: int| 0 <= k < c.len() - 1 implies (#[trigger] m[c[k]]).next_sibling is Some && m[c[k]].next_sibling->0.idx()
            == c[k + 1] by {
            assert(s[c[k]].next_sibling is Some);
        }
    }
    if p is Some {
        let pi = p->0.idx();
        assert(m[pi] == s[pi]);
        if s[pi].first_child is Some {
            let z = s[pi].first_child->0.idx();
            assert(s[z].parent == p);
            assert(z != x);
            assert(m[z] == s[z]);
        }
        if s[pi].last_child is Some {
            let y = s[pi].last_child->0.idx();
            assert(s[y].parent == p);
            assert(y != x);
            assert(m[y] == s[y]);
        }
    }
}

#[verifier::spinoff_prover]
#[verifier::rlimit(300)]
pub proof fn lemma_splice_links<T>(s: Seq<Node<T>>, n: Seq<Node<T>>, w: Ranks, x: int, fc: NodeId, lc: NodeId, p: Option<NodeId>, a: Option<NodeId>, b: Option<NodeId>)
    // @props C01 C04
    requires
        splice_ctx(s, w, x, fc, lc, p, a, b),
        splice_post(s, n, x, chain_from(s, w, fc.idx()), fc, lc, p, a, b),
    ensures
        links_ok(n),
{
    reveal(node_ok);
    let c = chain_from(s, w, fc.idx());
    lemma_children_chain(s, w, x);
    assert(node_ok(s, x));
    assert(node_ok(s, fc.idx()));
    assert(node_ok(s, lc.idx()));
    lemma_id_eq(s[x].first_child->0, fc);
    lemma_id_eq(s[x].last_child->0, lc);
    assert(c.contains(fc.idx())) by {
        assert(c[0] == fc.idx());
    }
    assert(c.contains(lc.idx())) by {
        assert(c[c.len() - 1] == lc.idx());
    }
    assert forall|i: int| c.contains(i) implies 0 <= i < s.len() && !s[i].stamp.removed() && s[i].parent is Some && s[i].parent->0.idx()
        == x by {
        let k = choose|k: int| 0 <= k < c.len() && c[k] == i;
        assert(is_me(s, x, s[c[k]].parent));
    }
    if a is Some {
        assert(node_ok(s, a->0.idx()));
        assert(ranked_at(s, w, a->0.idx()));
    }
    if b is Some {
        assert(node_ok(s, b->0.idx()));
    }
    if p is Some {
        let pi = p->0.idx();
        assert(node_ok(s, pi));
        assert(ranked_at(s, w, pi));
        if a is Some {
            lemma_parent_has_first(s, w, a->0.idx());
        }
        if b is Some {
            lemma_parent_has_last(s, w, b->0.idx());
        }
    }
    assert forall|i: int| 0 <= i < n.len() implies #[trigger] node_ok(n, i) by {
        assert(node_ok(s, i));
        if s[i].parent is Some {
            assert(node_ok(s, s[i].parent->0.idx()));
        }
        if s[i].previous_sibling is Some {
            assert(node_ok(s, s[i].previous_sibling->0.idx()));
        }
        if s[i].next_sibling is Some {
            assert(node_ok(s, s[i].next_sibling->0.idx()));
        }
        if s[i].first_child is Some {
            assert(node_ok(s, s[i].first_child->0.idx()));
        }
        if s[i].last_child is Some {
            assert(node_ok(s, s[i].last_child->0.idx()));
        }
    }
}

#[verifier::spinoff_prover]
pub proof fn lemma_splice_ranks<T>(s: Seq<Node<T>>, n: Seq<Node<T>>, w: Ranks, x: int, fc: NodeId, lc: NodeId, p: Option<NodeId>, a: Option<NodeId>, b: Option<NodeId>)
    // @props C02 C04
    requires
        splice_ctx(s, w, x, fc, lc, p, a, b),
        splice_post(s, n, x, chain_from(s, w, fc.idx()), fc, lc, p, a, b),
    ensures
        exists|w2: Ranks| ranked(n, w2),
{
    reveal(node_ok);
    let c = chain_from(s, w, fc.idx());
    lemma_children_chain(s, w, x);
    assert(node_ok(s, x));
    assert(node_ok(s, fc.idx()));
    assert(node_ok(s, lc.idx()));
    assert(c.contains(fc.idx())) by {
        assert(c[0] == fc.idx());
    }
    assert(c.contains(lc.idx())) by {
        assert(c[c.len() - 1] == lc.idx());
    }
    assert forall|i: int| c.contains(i) implies 0 <= i < s.len() && !s[i].stamp.removed() && s[i].parent is Some && s[i].parent->0.idx()
        == x by {
        let k = choose|k: int| 0 <= k < c.len() && c[k] == i;
        assert(is_me(s, x, s[c[k]].parent));
    }
    let t: int = if b is Some { (w.rem)(b->0.idx()) as int } else { -1 };
    let r: int = (w.rem)(fc.idx()) as int + 1;
    let tp: int = if a is Some { (w.pos)(a->0.idx()) as int } else { -1 };
    let rp: int = (w.pos)(lc.idx()) as int + 1;
    let rem2 = |i: int| -> nat {
        if c.contains(i) {
            (t + 1 + (w.rem)(i)) as nat
        } else if (w.rem)(i) > t {
            ((w.rem)(i) + r + 1) as nat
        } else {
            (w.rem)(i)
        }
    };
    let pos2 = |i: int| -> nat {
        if c.contains(i) {
            (tp + 1 + (w.pos)(i)) as nat
        } else if (w.pos)(i) > tp {
            ((w.pos)(i) + rp + 1) as nat
        } else {
            (w.pos)(i)
        }
    };
    let w2 = Ranks { depth: w.depth, rem: rem2, pos: pos2, bound: w.bound };
    if a is Some {
        assert(node_ok(s, a->0.idx()));
        assert(ranked_at(s, w, a->0.idx()));
    }
    if b is Some {
        assert(node_ok(s, b->0.idx()));
    }
    assert(ranked_at(s, w, x));
    assert forall|i: int| 0 <= i < n.len() implies #[trigger] ranked_at(n, w2, i) by {
        assert(ranked_at(s, w, i));
        assert(node_ok(s, i));
        if s[i].next_sibling is Some {
            let j = s[i].next_sibling->0.idx();
            assert(node_ok(s, j));
            if c.contains(j) {
                // only a chain node can have a chain node as its next sibling
                assert(s[j].parent == s[i].parent);
            }
            if c.contains(i) {
                assert(s[j].parent == s[i].parent);
                lemma_child_on_chain(s, w, x, j);
            }
        }
        if s[i].parent is Some && c.contains(i) {
            assert(ranked_at(s, w, x));
        }
    }
    assert(ranked(n, w2));
}

// ---- freeing an unlinked node (C04, C12) ------------------------------------------------------
/// nobody names a node that has no links (needs the ranks for the parent links of would-be children)
pub proof fn lemma_unreferenced<T>(s: Seq<Node<T>>, w: Ranks, x: int)
    // @props C12 C01
    requires
        links_ok(s),
        ranked(s, w),
        0 <= x < s.len(),
        no_links(s[x]),
    ensures
        forall|j: int|
            0 <= j < s.len() ==> not_at(x, (#[trigger] s[j]).parent) && not_at(x, s[j].previous_sibling) && not_at(x, s[j].next_sibling)
                && not_at(x, s[j].first_child) && not_at(x, s[j].last_child),
{
    reveal(node_ok);
    assert forall|j: int| 0 <= j < s.len() implies not_at(x, (#[trigger] s[j]).parent) && not_at(x, s[j].previous_sibling) && not_at(
        x,
        s[j].next_sibling,
    ) && not_at(x, s[j].first_child) && not_at(x, s[j].last_child) by {
        assert(node_ok(s, j));
        if !s[j].stamp.removed() && s[j].parent is Some && s[j].parent->0.idx() == x {
            lemma_parent_has_first(s, w, j);
        }
    }
}

pub proof fn lemma_free_links<T>(o: Seq<Node<T>>, n: Seq<Node<T>>, w: Ranks, x: int)
    // @props C12 C01 C02
    requires
        links_ok(o),
        ranked(o, w),
        0 <= x < o.len(),
        no_links(o[x]),
        n.len() == o.len(),
        n[x].stamp.removed(),
        forall|i: int|
            0 <= i < o.len() ==> {
                &&& (#[trigger] n[i]).parent == o[i].parent && n[i].previous_sibling == o[i].previous_sibling && n[i].next_sibling
                    == o[i].next_sibling && n[i].first_child == o[i].first_child && n[i].last_child == o[i].last_child
                &&& i != x ==> n[i].stamp == o[i].stamp
            },
    ensures
        links_ok(n),
        ranked(n, w),
{
    reveal(node_ok);
    lemma_unreferenced(o, w, x);
    assert forall|i: int| 0 <= i < n.len() implies #[trigger] node_ok(n, i) by {
        assert(node_ok(o, i));
    }
    assert forall|i: int| 0 <= i < n.len() implies #[trigger] ranked_at(n, w, i) by {
        assert(ranked_at(o, w, i));
    }
}

/// C04: exact link-level effect of `remove(x)`: x's children, in order, take x's place
pub open spec fn remove_post<T>(o: Seq<Node<T>>, n: Seq<Node<T>>, x: int) -> bool {
    let p = o[x].parent;
    let a = o[x].previous_sibling;
    let b = o[x].next_sibling;
    let fc = o[x].first_child;
    let lc = o[x].last_child;
    &&& n.len() == o.len()
    &&& forall|i: int|
        0 <= i < o.len() ==> {
            &&& (#[trigger] n[i]).parent == (if i == x {
                None
            } else if !o[i].stamp.removed() && o[i].parent is Some && o[i].parent->0.idx() == x {
                p
            } else {
                o[i].parent
            })
            &&& n[i].previous_sibling == (if i == x {
                None
            } else if fc is Some && i == fc->0.idx() {
                a
            } else if b is Some && i == b->0.idx() {
                if lc is Some {
                    lc
                } else {
                    a
                }
            } else {
                o[i].previous_sibling
            })
            &&& n[i].next_sibling == (if i == x {
                None
            } else if lc is Some && i == lc->0.idx() {
                b
            } else if a is Some && i == a->0.idx() {
                if fc is Some {
                    fc
                } else {
                    b
                }
            } else {
                o[i].next_sibling
            })
            &&& n[i].first_child == (if i == x {
                None
            } else if p is Some && i == p->0.idx() && a is None {
                if fc is Some {
                    fc
                } else {
                    b
                }
            } else {
                o[i].first_child
            })
            &&& n[i].last_child == (if i == x {
                None
            } else if p is Some && i == p->0.idx() && b is None {
                if lc is Some {
                    lc
                } else {
                    a
                }
            } else {
                o[i].last_child
            })
        }
}

/// what the four debug assertions at the start of `remove` check
pub proof fn lemma_remove_entry<T>(s: Seq<Node<T>>, x: NodeId)
    // @props C05
    requires
        links_ok(s),
        0 <= x.idx() < s.len(),
        s[x.idx()].stamp == x.stamp,
        !x.stamp.removed(),
    ensures
        ({
            let n = s[x.idx()];
            &&& tgt_ok(s, n.parent) && tgt_ok(s, n.previous_sibling) && tgt_ok(s, n.next_sibling) && tgt_ok(s, n.first_child) && tgt_ok(
                s,
                n.last_child,
            )
            &&& n.previous_sibling is Some ==> s[n.previous_sibling->0.idx()].parent == n.parent && s[n.previous_sibling->0.idx()].next_sibling
                == Some(x)
            &&& n.next_sibling is Some ==> s[n.next_sibling->0.idx()].parent == n.parent && s[n.next_sibling->0.idx()].previous_sibling
                == Some(x)
            &&& n.first_child is Some ==> s[n.first_child->0.idx()].parent == Some(x) && s[n.first_child->0.idx()].previous_sibling is None
            &&& n.last_child is Some ==> s[n.last_child->0.idx()].parent == Some(x) && s[n.last_child->0.idx()].next_sibling is None
            &&& (n.first_child is Some) == (n.last_child is Some)
        }),
{
    reveal(node_ok);
    let xi = x.idx();
    assert(node_ok(s, xi));
    if s[xi].previous_sibling is Some {
        let y = s[xi].previous_sibling->0.idx();
        assert(node_ok(s, y));
        lemma_id_eq(s[y].next_sibling->0, x);
    }
    if s[xi].next_sibling is Some {
        let y = s[xi].next_sibling->0.idx();
        assert(node_ok(s, y));
        lemma_id_eq(s[y].previous_sibling->0, x);
    }
    if s[xi].first_child is Some {
        let y = s[xi].first_child->0.idx();
        assert(node_ok(s, y));
        lemma_id_eq(s[y].parent->0, x);
    }
    if s[xi].last_child is Some {
        let y = s[xi].last_child->0.idx();
        assert(node_ok(s, y));
        lemma_id_eq(s[y].parent->0, x);
    }
}

pub proof fn lemma_compose_splice<T>(s1: Seq<Node<T>>, s2: Seq<Node<T>>, s3: Seq<Node<T>>, w: Ranks, x: int, fc: NodeId, lc: NodeId, p: Option<NodeId>, a: Option<NodeId>, b: Option<NodeId>)
    // @props C04
    requires
        splice_ctx(s1, w, x, fc, lc, p, a, b),
        detach_range_post(s1, s2, fc.idx(), lc.idx()),
        transplant_post(s2, s3, chain_from(s1, w, fc.idx()), fc, lc, p, a, b),
    ensures
        splice_post(s1, s3, x, chain_from(s1, w, fc.idx()), fc, lc, p, a, b),
{
    lemma_splice_pre_s(s1, w, x, fc, lc, p, a, b);
    let c = chain_from(s1, w, fc.idx());
    assert forall|i: int| 0 <= i < s1.len() && i != x implies #[trigger] s2[i] == s1[i] by {}
    if p is Some {
        let pi = p->0.idx();
        assert(s2[pi] == s1[pi]);
    }
}

/// C04 assembled: detach x, splice its children into the gap, free x
pub proof fn lemma_remove_compose<T>(s0: Seq<Node<T>>, s1: Seq<Node<T>>, s3: Seq<Node<T>>, s4: Seq<Node<T>>, w: Ranks, x: NodeId)
    // @props C04
    requires
        links_ok(s0),
        ranked(s0, w),
        0 <= x.idx() < s0.len(),
        s0[x.idx()].stamp == x.stamp,
        !x.stamp.removed(),
        detach_post(s0, s1, x.idx()),
        s0[x.idx()].first_child is Some ==> splice_ctx(
            s1,
            w,
            x.idx(),
            s0[x.idx()].first_child->0,
            s0[x.idx()].last_child->0,
            s0[x.idx()].parent,
            s0[x.idx()].previous_sibling,
            s0[x.idx()].next_sibling,
        ) && splice_post(
            s1,
            s3,
            x.idx(),
            chain_from(s1, w, s0[x.idx()].first_child->0.idx()),
            s0[x.idx()].first_child->0,
            s0[x.idx()].last_child->0,
            s0[x.idx()].parent,
            s0[x.idx()].previous_sibling,
            s0[x.idx()].next_sibling,
        ),
        s0[x.idx()].first_child is None ==> s3 == s1 && s0[x.idx()].last_child is None,
        s4.len() == s3.len(),
        forall|i: int|
            0 <= i < s3.len() ==> (#[trigger] s4[i]).parent == s3[i].parent && s4[i].previous_sibling == s3[i].previous_sibling
                && s4[i].next_sibling == s3[i].next_sibling && s4[i].first_child == s3[i].first_child && s4[i].last_child
                == s3[i].last_child,
    ensures
        remove_post(s0, s4, x.idx()),
{
    let xi = x.idx();
    lemma_neighbors_distinct(s0, w, xi);
    if s0[xi].first_child is Some {
        let fc = s0[xi].first_child->0;
        let lc = s0[xi].last_child->0;
        let p = s0[xi].parent;
        let a = s0[xi].previous_sibling;
        let b = s0[xi].next_sibling;
        let c = chain_from(s1, w, fc.idx());
        lemma_splice_pre_s(s1, w, xi, fc, lc, p, a, b);
        lemma_children_chain(s1, w, xi);
        assert(c.contains(fc.idx())) by {
            assert(c[0] == fc.idx());
        }
        assert(c.contains(lc.idx())) by {
            assert(c[c.len() - 1] == lc.idx());
        }
        assert forall|i: int| 0 <= i < s0.len() implies (c.contains(i) <==> (i != xi && !s0[i].stamp.removed() && s0[i].parent is Some
            && s0[i].parent->0.idx() == xi)) by {
            if c.contains(i) {
                let k = choose|k: int| 0 <= k < c.len() && c[k] == i;
                assert(is_me(s1, xi, s1[c[k]].parent));
            }
            assert(s1[i].stamp == s0[i].stamp);
            if i != xi {
                assert(s1[i].parent == s0[i].parent);
            }
        }
        lemma_remove_pointwise(s0, s1, s3, s4, xi, c, fc, lc, p, a, b);
    } else {
        assert forall|i: int| 0 <= i < s0.len() && !(#[trigger] s0[i]).stamp.removed() && s0[i].parent is Some implies s0[i].parent->0.idx()
            != xi by {
            if s0[i].parent->0.idx() == xi {
                lemma_parent_has_first(s0, w, i);
            }
        }
        lemma_remove_leaf_pointwise(s0, s1, s4, xi);
    }
}

pub proof fn lemma_remove_leaf_pointwise<T>(s0: Seq<Node<T>>, s1: Seq<Node<T>>, s4: Seq<Node<T>>, x: int)
    // @props C04
    requires
        0 <= x < s0.len(),
        s0[x].first_child is None && s0[x].last_child is None,
        detach_post(s0, s1, x),
        s4.len() == s1.len(),
        forall|i: int|
            0 <= i < s1.len() ==> (#[trigger] s4[i]).parent == s1[i].parent && s4[i].previous_sibling == s1[i].previous_sibling
                && s4[i].next_sibling == s1[i].next_sibling && s4[i].first_child == s1[i].first_child && s4[i].last_child
                == s1[i].last_child,
        forall|i: int| 0 <= i < s0.len() && !(#[trigger] s0[i]).stamp.removed() && s0[i].parent is Some ==> s0[i].parent->0.idx() != x,
        not_at(x, s0[x].parent),
    ensures
        remove_post(s0, s4, x),
{
    let a = s0[x].previous_sibling;
    let b = s0[x].next_sibling;
    let p = s0[x].parent;
    assert forall|i: int| 0 <= i < s0.len() implies (#[trigger] s4[i]).parent == (if i == x {
        None
    } else {
        s0[i].parent
    }) by {
        assert(s4[i].parent == s1[i].parent);
    }
    assert forall|i: int| 0 <= i < s0.len() implies (#[trigger] s4[i]).previous_sibling == (if i == x {
        None
    } else if b is Some && i == b->0.idx() {
        a
    } else {
        s0[i].previous_sibling
    }) by {
        assert(s4[i].previous_sibling == s1[i].previous_sibling);
    }
    assert forall|i: int| 0 <= i < s0.len() implies (#[trigger] s4[i]).next_sibling == (if i == x {
        None
    } else if a is Some && i == a->0.idx() {
        b
    } else {
        s0[i].next_sibling
    }) by {
        assert(s4[i].next_sibling == s1[i].next_sibling);
    }
    assert forall|i: int| 0 <= i < s0.len() implies (#[trigger] s4[i]).first_child == (if i == x {
        None
    } else if p is Some && i == p->0.idx() && a is None {
        b
    } else {
        s0[i].first_child
    }) by {
        assert(s4[i].first_child == s1[i].first_child);
    }
    assert forall|i: int| 0 <= i < s0.len() implies (#[trigger] s4[i]).last_child == (if i == x {
        None
    } else if p is Some && i == p->0.idx() && b is None {
        a
    } else {
        s0[i].last_child
    }) by {
        assert(s4[i].last_child == s1[i].last_child);
    }
}

/// the pointwise composition behind `lemma_remove_compose` (no well-formedness needed here)
pub proof fn lemma_remove_pointwise<T>(s0: Seq<Node<T>>, s1: Seq<Node<T>>, s3: Seq<Node<T>>, s4: Seq<Node<T>>, x: int, c: Seq<int>, fc: NodeId, lc: NodeId, p: Option<NodeId>, a: Option<NodeId>, b: Option<NodeId>)
    // @props C04
    requires
        0 <= x < s0.len(),
        p == s0[x].parent && a == s0[x].previous_sibling && b == s0[x].next_sibling,
        s0[x].first_child == Some(fc) && s0[x].last_child == Some(lc),
        detach_post(s0, s1, x),
        splice_post(s1, s3, x, c, fc, lc, p, a, b),
        s4.len() == s3.len(),
        forall|i: int|
            0 <= i < s3.len() ==> (#[trigger] s4[i]).parent == s3[i].parent && s4[i].previous_sibling == s3[i].previous_sibling
                && s4[i].next_sibling == s3[i].next_sibling && s4[i].first_child == s3[i].first_child && s4[i].last_child
                == s3[i].last_child,
        forall|i: int| 0 <= i < s0.len() ==> (c.contains(i) <==> (i != x && !s0[i].stamp.removed() && s0[i].parent is Some && s0[i].parent->0.idx() == x)),
        !c.contains(x),
        c.contains(fc.idx()) && c.contains(lc.idx()),
        a is Some ==> !c.contains(a->0.idx()) && a->0.idx() != x,
        b is Some ==> !c.contains(b->0.idx()) && b->0.idx() != x,
        p is Some ==> !c.contains(p->0.idx()) && p->0.idx() != x,
        a is Some && b is Some ==> a->0.idx() != b->0.idx(),
    ensures
        remove_post(s0, s4, x),
{
    assert forall|i: int| 0 <= i < s0.len() implies {
        &&& (#[trigger] s4[i]).parent == (if i == x {
            None
        } else if !s0[i].stamp.removed() && s0[i].parent is Some && s0[i].parent->0.idx() == x {
            p
        } else {
            s0[i].parent
        })
    } by {
        assert(s4[i].parent == s3[i].parent);
    }
}

// ---- remove_subtree (C02 termination, C04) ---------------------------------------------------
pub open spec fn live_count<T>(s: Seq<Node<T>>) -> nat
    decreases s.len(),
{
    if s.len() == 0 {
        0
    } else {
        live_count(s.drop_last()) + (if s.last().stamp.removed() {
            0nat
        } else {
            1nat
        })
    }
}

pub proof fn lemma_live_count_same<T>(o: Seq<Node<T>>, n: Seq<Node<T>>)
    // @props C02
    requires
        n.len() == o.len(),
        forall|i: int| 0 <= i < o.len() ==> (#[trigger] n[i]).stamp == o[i].stamp,
    ensures
        live_count(n) == live_count(o),
    decreases o.len(),
{
    if o.len() > 0 {
        assert(n.last().stamp == o.last().stamp) by {
            assert(n[n.len() - 1].stamp == o[o.len() - 1].stamp);
        }
        assert forall|i: int| 0 <= i < o.drop_last().len() implies (#[trigger] n.drop_last()[i]).stamp == o.drop_last()[i].stamp by {
            assert(n[i].stamp == o[i].stamp);
        }
        lemma_live_count_same(o.drop_last(), n.drop_last());
    }
}

pub proof fn lemma_live_count_free<T>(o: Seq<Node<T>>, n: Seq<Node<T>>, x: int)
    // @props C02
    requires
        n.len() == o.len(),
        0 <= x < o.len(),
        !o[x].stamp.removed(),
        n[x].stamp.removed(),
        forall|i: int| 0 <= i < o.len() && i != x ==> (#[trigger] n[i]).stamp == o[i].stamp,
    ensures
        live_count(n) + 1 == live_count(o),
    decreases o.len(),
{
    let ol = o.drop_last();
    let nl = n.drop_last();
    if x == o.len() - 1 {
        assert forall|i: int| 0 <= i < ol.len() implies (#[trigger] nl[i]).stamp == ol[i].stamp by {
            assert(n[i].stamp == o[i].stamp);
        }
        lemma_live_count_same(ol, nl);
    } else {
        assert(n.last().stamp == o.last().stamp) by {
            assert(n[n.len() - 1].stamp == o[o.len() - 1].stamp);
        }
        assert forall|i: int| 0 <= i < ol.len() && i != x implies (#[trigger] nl[i]).stamp == ol[i].stamp by {
            assert(n[i].stamp == o[i].stamp);
        }
        lemma_live_count_free(ol, nl, x);
    }
}

/// in_sub is insensitive to a change of the parent link of a node z that is not on the path from y
pub proof fn lemma_in_sub_frame2<T>(o: Seq<Node<T>>, n: Seq<Node<T>>, w: Ranks, r: int, y: int, z: int)
    // @props C02 C04
    requires
        n.len() == o.len(),
        forall|i: int| 0 <= i < o.len() && i != z ==> (#[trigger] n[i]).parent == o[i].parent,
        !in_sub(o, w, z, y),
    ensures
        in_sub(n, w, r, y) == in_sub(o, w, r, y),
    decreases (w.depth)(y),
{
    if y != r && 0 <= y < o.len() && o[y].parent is Some && (w.depth)(o[y].parent->0.idx()) < (w.depth)(y) {
        lemma_in_sub_frame2(o, n, w, r, o[y].parent->0.idx(), z);
    }
}

pub proof fn lemma_id_eq_from_live<T>(s: Seq<Node<T>>, id: NodeId)
    // @props C05
    requires
        tgt_ok(s, Some(id)),
    ensures
        0 <= id.idx() < s.len() && s[id.idx()].stamp == id.stamp && !id.stamp.removed(),
{
}

pub proof fn lemma_parent_has_both_none<T>(s: Seq<Node<T>>, i: int)
    // @props C01
    requires
        links_ok(s),
        0 <= i < s.len(),
    ensures
        (s[i].first_child is Some) == (s[i].last_child is Some),
{
    reveal(node_ok);
    assert(node_ok(s, i));
}

/// descending to the first child stays inside the subtree of r
pub proof fn lemma_first_child_in_sub<T>(s: Seq<Node<T>>, w: Ranks, r: int, id: NodeId)
    // @props C04 C02
    requires
        links_ok(s),
        ranked(s, w),
        tgt_ok(s, Some(id)),
        in_sub(s, w, r, id.idx()),
        s[id.idx()].first_child is Some,
    ensures
        tgt_ok(s, s[id.idx()].first_child),
        in_sub(s, w, r, s[id.idx()].first_child->0.idx()),
        (w.depth)(s[id.idx()].first_child->0.idx()) > (w.depth)(id.idx()),
        (w.depth)(s[id.idx()].first_child->0.idx()) <= w.bound,
{
    reveal(node_ok);
    assert(node_ok(s, id.idx()));
    let c = s[id.idx()].first_child->0.idx();
    assert(node_ok(s, c));
    assert(ranked_at(s, w, c));
}

/// after the leaf `id` of the subtree of r has been detached and freed, its former parent is
/// still inside the subtree, and r itself is untouched unless it was the leaf
pub proof fn lemma_leaf_removed_frame<T>(s0: Seq<Node<T>>, s1: Seq<Node<T>>, s2: Seq<Node<T>>, w: Ranks, r: int, id: NodeId)
    // @props C04 C02
    requires
        links_ok(s0),
        ranked(s0, w),
        tgt_ok(s0, Some(id)),
        s0[id.idx()].first_child is None,
        in_sub(s0, w, r, id.idx()),
        detach_post(s0, s1, id.idx()),
        s2.len() == s1.len(),
        forall|i: int|
            0 <= i < s1.len() ==> (#[trigger] s2[i]).parent == s1[i].parent && (i != id.idx() ==> s2[i].stamp == s1[i].stamp),
        s2[id.idx()].stamp.removed(),
        0 <= r < s0.len(),
        !s0[r].stamp.removed(),
        s0[r].parent is None,
    ensures
        s0[id.idx()].parent is Some ==> tgt_ok(s2, s0[id.idx()].parent) && in_sub(s2, w, r, s0[id.idx()].parent->0.idx()) && id.idx() != r
            && !s2[r].stamp.removed() && s2[r].parent is None && s2[r].stamp == s0[r].stamp,
        s0[id.idx()].parent is None ==> id.idx() == r,
{
    let x = id.idx();
    lemma_links_live(s0, x);
    assert(ranked_at(s0, w, x));
    if s0[x].parent is Some {
        let p = s0[x].parent->0.idx();
        assert(p != x);
        // x is a leaf: it is on nobody's path to the root
        lemma_childless_not_anc(s0, w, x, p);
        lemma_in_sub_frame2(s0, s2, w, r, p, x);
        assert(in_sub(s0, w, r, x) == (x == r || in_sub(s0, w, r, p)));
    } else {
        assert(in_sub(s0, w, r, x) == (x == r));
    }
}

// ---- traversals (C09, C10) -----------------------------------------------------------------------
pub open spec fn lnk<T>(n: Node<T>, by_next: bool) -> Option<NodeId> {
    if by_next {
        n.next_sibling
    } else {
        n.previous_sibling
    }
}

pub open spec fn rk(w: Ranks, i: int, by_next: bool) -> nat {
    if by_next {
        (w.rem)(i)
    } else {
        (w.pos)(i)
    }
}

/// the documented sequence of a sibling walk: the start node first, then the later (by_next) or
/// earlier (!by_next) siblings in order
pub open spec fn walk<T>(s: Seq<Node<T>>, w: Ranks, id: NodeId, by_next: bool) -> Seq<NodeId>
    decreases rk(w, id.idx(), by_next),
{
    let i = id.idx();
    if 0 <= i < s.len() && lnk(s[i], by_next) is Some && rk(w, lnk(s[i], by_next)->0.idx(), by_next) < rk(w, i, by_next) {
        seq![id] + walk(s, w, lnk(s[i], by_next)->0, by_next)
    } else {
        seq![id]
    }
}

/// d is a doubly linked run of live siblings (the ghost deque of the double-ended iterators)
pub open spec fn run_ok<T>(s: Seq<Node<T>>, d: Seq<NodeId>, by_next: bool) -> bool {
    &&& forall|k: int| 0 <= k < d.len() ==> tgt_ok(s, Some(#[trigger] d[k]))
    &&& forall|j: int, k: int|
        0 <= j && k == j + 1 && k < d.len() ==> lnk(s[(#[trigger] d[j]).idx()], by_next) == Some(#[trigger] d[k]) && lnk(s[d[k].idx()], !by_next)
            == Some(d[j])
    &&& forall|j: int, k: int| 0 <= j < k < d.len() ==> (#[trigger] d[j]).idx() != (#[trigger] d[k]).idx()
}

/// C10: state of a double-ended iterator relative to the ghost deque d of elements still to yield
pub open spec fn deq<T>(s: Seq<Node<T>>, head: Option<NodeId>, tail: Option<NodeId>, d: Seq<NodeId>, by_next: bool) -> bool {
    &&& d.len() == 0 ==> head is None && tail is None
    &&& d.len() > 0 ==> head == Some(d[0]) && tail == Some(d[d.len() - 1])
    &&& run_ok(s, d, by_next)
}

#[verifier::spinoff_prover]
#[verifier::rlimit(200)]
pub proof fn lemma_walk<T>(s: Seq<Node<T>>, w: Ranks, id: NodeId, by_next: bool)
    // @props C09 C10
    requires
        links_ok(s),
        ranked(s, w),
        tgt_ok(s, Some(id)),
    ensures
        ({
            let d = walk(s, w, id, by_next);
            &&& d.len() > 0 && d[0] == id
            &&& run_ok(s, d, by_next)
            &&& lnk(s[d[d.len() - 1].idx()], by_next) is None
            &&& forall|k: int| 0 <= k < d.len() ==> s[(#[trigger] d[k]).idx()].parent == s[id.idx()].parent && rk(w, d[k].idx(), by_next) <= rk(
                w,
                id.idx(),
                by_next,
            ) && (k > 0 ==> rk(w, d[k].idx(), by_next) < rk(w, id.idx(), by_next))
        }),
    decreases rk(w, id.idx(), by_next),
{
    reveal(node_ok);
    let i = id.idx();
    assert(node_ok(s, i));
    assert(ranked_at(s, w, i));
    let d = walk(s, w, id, by_next);
    if lnk(s[i], by_next) is Some {
        let nx = lnk(s[i], by_next)->0;
        let j = nx.idx();
        assert(node_ok(s, j));
        assert(ranked_at(s, w, j));
        assert(rk(w, j, by_next) < rk(w, i, by_next));
        lemma_walk(s, w, nx, by_next);
        let e = walk(s, w, nx, by_next);
        assert(d =~= seq![id] + e);
        lemma_id_eq(lnk(s[j], !by_next)->0, id);
        assert forall|k: int| 0 <= k < d.len() implies tgt_ok(s, Some(#[trigger] d[k])) by {
            if k > 0 {
                assert(d[k] == e[k - 1]);
            }
        }
        assert forall|k: int| 0 <= k < d.len() - 1 implies lnk(s[(#[trigger] d[k]).idx()], by_next) == Some(d[k + 1]) && lnk(
            s[d[k + 1].idx()],
            !by_next,
        ) == Some(d[k]) by {
            if k > 0 {
                assert(d[k] == e[k - 1]);
                assert(d[k + 1] == e[k]);
            } else {
                assert(d[1] == e[0]);
            }
        }
        assert forall|k: int| 0 <= k < d.len() implies s[(#[trigger] d[k]).idx()].parent == s[id.idx()].parent && rk(w, d[k].idx(), by_next)
            <= rk(w, id.idx(), by_next) && (k > 0 ==> rk(w, d[k].idx(), by_next) < rk(w, id.idx(), by_next)) by {
            if k > 0 {
                assert(d[k] == e[k - 1]);
            }
        }
        assert forall|a: int, b: int| 0 <= a < b < d.len() implies (#[trigger] d[a]).idx() != (#[trigger] d[b]).idx() by {
            assert(d[b] == e[b - 1]);
            if a > 0 {
                assert(d[a] == e[a - 1]);
            }
        }
        assert(d[d.len() - 1] == e[e.len() - 1]);
    } else {
        assert(d =~= seq![id]);
    }
}

/// popping either end of the ghost deque
#[verifier::spinoff_prover]
#[verifier::rlimit(200)]
pub proof fn lemma_deq_pop<T>(s: Seq<Node<T>>, d: Seq<NodeId>, by_next: bool)
    // @props C10
    requires
        run_ok(s, d, by_next),
        d.len() > 0,
    ensures
        run_ok(s, d.drop_first(), by_next),
        run_ok(s, d.drop_last(), by_next),
        d.len() > 1 ==> d[0] != d[d.len() - 1],
{
    let t = d.drop_first();
    assert forall|k: int| 0 <= k < t.len() implies tgt_ok(s, Some(#[trigger] t[k])) by {
        assert(t[k] == d[k + 1]);
    }
    assert forall|k: int| 0 <= k < t.len() - 1 implies lnk(s[(#[trigger] t[k]).idx()], by_next) == Some(t[k + 1]) && lnk(
        s[t[k + 1].idx()],
        !by_next,
    ) == Some(t[k]) by {
        assert(t[k] == d[k + 1]);
        assert(t[k + 1] == d[k + 2]);
    }
    assert forall|j: int, k: int| 0 <= j < k < t.len() implies (#[trigger] t[j]).idx() != (#[trigger] t[k]).idx() by {
        assert(t[j] == d[j + 1]);
        assert(t[k] == d[k + 1]);
    }
    let u = d.drop_last();
    assert forall|k: int| 0 <= k < u.len() implies tgt_ok(s, Some(#[trigger] u[k])) by {
        assert(u[k] == d[k]);
    }
    assert forall|k: int| 0 <= k < u.len() - 1 implies lnk(s[(#[trigger] u[k]).idx()], by_next) == Some(u[k + 1]) && lnk(
        s[u[k + 1].idx()],
        !by_next,
    ) == Some(u[k]) by {
        assert(u[k] == d[k]);
        assert(u[k + 1] == d[k + 1]);
    }
    assert forall|j: int, k: int| 0 <= j < k < u.len() implies (#[trigger] u[j]).idx() != (#[trigger] u[k]).idx() by {
        assert(u[j] == d[j]);
        assert(u[k] == d[k]);
    }
    if d.len() > 1 {
        assert(d[0].idx() != d[d.len() - 1].idx());
    }
}

#[verifier::spinoff_prover]
#[verifier::rlimit(200)]
pub proof fn lemma_walk_indep<T>(s: Seq<Node<T>>, w1: Ranks, w2: Ranks, id: NodeId, by_next: bool)
    // @props C09
    requires
        links_ok(s),
        ranked(s, w1),
        ranked(s, w2),
        tgt_ok(s, Some(id)),
    ensures
        walk(s, w1, id, by_next) == walk(s, w2, id, by_next),
    decreases rk(w1, id.idx(), by_next),
{
    reveal(node_ok);
    let i = id.idx();
    assert(node_ok(s, i));
    assert(ranked_at(s, w1, i));
    assert(ranked_at(s, w2, i));
    if lnk(s[i], by_next) is Some {
        let nx = lnk(s[i], by_next)->0;
        assert(node_ok(s, nx.idx()));
        assert(ranked_at(s, w1, nx.idx()));
        assert(ranked_at(s, w2, nx.idx()));
        lemma_walk_indep(s, w1, w2, nx, by_next);
    }
}

/// the far end of the walk from x is what x's parent names as its last (first) child
pub proof fn lemma_walk_end<T>(s: Seq<Node<T>>, w: Ranks, id: NodeId, by_next: bool)
    // @props C09 C10
    requires
        links_ok(s),
        ranked(s, w),
        tgt_ok(s, Some(id)),
    ensures
        ({
            let d = walk(s, w, id, by_next);
            let e = d[d.len() - 1];
            s[id.idx()].parent is Some ==> {
                let p = s[id.idx()].parent->0.idx();
                0 <= p < s.len() && (if by_next {
                    s[p].last_child
                } else {
                    s[p].first_child
                }) == Some(e)
            }
        }),
{
    reveal(node_ok);
    lemma_walk(s, w, id, by_next);
    let d = walk(s, w, id, by_next);
    let e = d[d.len() - 1];
    assert(tgt_ok(s, Some(e)));
    assert(node_ok(s, e.idx()));
    assert(node_ok(s, id.idx()));
    assert(s[e.idx()].parent == s[id.idx()].parent);
    if s[id.idx()].parent is Some {
        let p = s[id.idx()].parent->0.idx();
        if by_next {
            lemma_id_eq(s[p].last_child->0, e);
        } else {
            lemma_id_eq(s[p].first_child->0, e);
        }
    }
}

/// C09: the documented children sequence of p (in order), and its reverse
pub open spec fn children_seq<T>(s: Seq<Node<T>>, w: Ranks, p: int) -> Seq<NodeId> {
    if s[p].first_child is Some {
        walk(s, w, s[p].first_child->0, true)
    } else {
        Seq::empty()
    }
}

pub proof fn lemma_children_deq<T>(s: Seq<Node<T>>, w: Ranks, p: int)
    // @props C09 C10
    requires
        links_ok(s),
        ranked(s, w),
        0 <= p < s.len(),
    ensures
        deq(s, s[p].first_child, s[p].last_child, children_seq(s, w, p), true),
{
    reveal(node_ok);
    assert(node_ok(s, p));
    if s[p].stamp.removed() {
    } else if s[p].first_child is Some {
        let fc = s[p].first_child->0;
        lemma_walk(s, w, fc, true);
        lemma_walk_end(s, w, fc, true);
        assert(node_ok(s, fc.idx()));
    }
}

// ---- edge traversal (C09) ---------------------------------------------------------------------------
pub open spec fn edge_node(e: NodeEdge) -> NodeId {
    match e {
        NodeEdge::Start(n) => n,
        NodeEdge::End(n) => n,
    }
}

/// the documented depth-first step: Start(n) -> Start(first child) or End(n); End(n) -> Start(next
/// sibling) or End(parent)
pub open spec fn next_edge<T>(s: Seq<Node<T>>, e: NodeEdge) -> Option<NodeEdge> {
    match e {
        NodeEdge::Start(n) => match s[n.idx()].first_child {
            Some(c) => Some(NodeEdge::Start(c)),
            None => Some(NodeEdge::End(n)),
        },
        NodeEdge::End(n) => match s[n.idx()].next_sibling {
            Some(x) => Some(NodeEdge::Start(x)),
            None => match s[n.idx()].parent {
                Some(p) => Some(NodeEdge::End(p)),
                None => None,
            },
        },
    }
}

pub open spec fn prev_edge<T>(s: Seq<Node<T>>, e: NodeEdge) -> Option<NodeEdge> {
    match e {
        NodeEdge::End(n) => match s[n.idx()].last_child {
            Some(c) => Some(NodeEdge::End(c)),
            None => Some(NodeEdge::Start(n)),
        },
        NodeEdge::Start(n) => match s[n.idx()].previous_sibling {
            Some(x) => Some(NodeEdge::End(x)),
            None => match s[n.idx()].parent {
                Some(p) => Some(NodeEdge::Start(p)),
                None => None,
            },
        },
    }
}

/// C09: the two steps are inverses of each other on a well-formed forest
pub proof fn lemma_edge_inverse<T>(s: Seq<Node<T>>, e: NodeEdge)
    // @props C09
    requires
        links_ok(s),
        tgt_ok(s, Some(edge_node(e))),
    ensures
        next_edge(s, e) is Some ==> prev_edge(s, next_edge(s, e)->0) == Some(e) && tgt_ok(s, Some(edge_node(next_edge(s, e)->0))),
        prev_edge(s, e) is Some ==> next_edge(s, prev_edge(s, e)->0) == Some(e) && tgt_ok(s, Some(edge_node(prev_edge(s, e)->0))),
{
    reveal(node_ok);
    let n = edge_node(e);
    let i = n.idx();
    assert(node_ok(s, i));
    if s[i].first_child is Some {
        let c = s[i].first_child->0;
        assert(node_ok(s, c.idx()));
        lemma_id_eq(s[c.idx()].parent->0, n);
    }
    if s[i].last_child is Some {
        let c = s[i].last_child->0;
        assert(node_ok(s, c.idx()));
        lemma_id_eq(s[c.idx()].parent->0, n);
    }
    if s[i].next_sibling is Some {
        let c = s[i].next_sibling->0;
        assert(node_ok(s, c.idx()));
        lemma_id_eq(s[c.idx()].previous_sibling->0, n);
    }
    if s[i].previous_sibling is Some {
        let c = s[i].previous_sibling->0;
        assert(node_ok(s, c.idx()));
        lemma_id_eq(s[c.idx()].next_sibling->0, n);
    }
    if s[i].parent is Some {
        let p = s[i].parent->0;
        assert(node_ok(s, p.idx()));
        if s[i].next_sibling is None {
            lemma_id_eq(s[p.idx()].last_child->0, n);
        }
        if s[i].previous_sibling is None {
            lemma_id_eq(s[p.idx()].first_child->0, n);
        }
    }
}

/// measure of the `find_map` loop inside `Descendants::next`: a run of End edges only climbs
pub open spec fn desc_measure(w: Ranks, e: Option<NodeEdge>) -> nat {
    match e {
        None => 0,
        Some(NodeEdge::Start(_)) => 1,
        Some(NodeEdge::End(n)) => ((w.depth)(n.idx()) + 2) as nat,
    }
}

/// one step of `Traverse` rooted at `root`
pub open spec fn trav_step<T>(s: Seq<Node<T>>, root: NodeId, e: NodeEdge) -> Option<NodeEdge> {
    if e == NodeEdge::End(root) {
        None
    } else {
        next_edge(s, e)
    }
}

/// the first Start edge at or after e in the traversal (what `Descendants::next` looks for)
pub open spec fn first_start<T>(s: Seq<Node<T>>, w: Ranks, root: NodeId, e: Option<NodeEdge>) -> Option<NodeEdge>
    decreases desc_measure(w, e),
{
    match e {
        None => None,
        Some(NodeEdge::Start(n)) => e,
        Some(NodeEdge::End(n)) => if desc_measure(w, trav_step(s, root, NodeEdge::End(n))) < desc_measure(w, e) {
            first_start(s, w, root, trav_step(s, root, NodeEdge::End(n)))
        } else {
            None
        },
    }
}

pub proof fn lemma_desc_step<T>(s: Seq<Node<T>>, w: Ranks, root: NodeId, e: NodeEdge)
    // @props C09 C02
    requires
        links_ok(s),
        ranked(s, w),
        tgt_ok(s, Some(edge_node(e))),
    ensures
        trav_step(s, root, e) is Some ==> tgt_ok(s, Some(edge_node(trav_step(s, root, e)->0))),
        e is End ==> desc_measure(w, trav_step(s, root, e)) < desc_measure(w, Some(e)),
{
    lemma_edge_inverse(s, e);
    assert(ranked_at(s, w, edge_node(e).idx()));
}

// ---- remove_subtree deletes exactly the subtree (C04) -------------------------------------------
pub open spec fn same_links<T>(a: Node<T>, b: Node<T>) -> bool {
    a.parent == b.parent && a.previous_sibling == b.previous_sibling && a.next_sibling == b.next_sibling && a.first_child
        == b.first_child && a.last_child == b.last_child
}

/// loop invariant of `remove_subtree(x)`: s1 is the state right after `x.detach()`, `now` the
/// current state, the cursor walks the not yet removed part of x's subtree
pub open spec fn rs_inv<T>(s1: Seq<Node<T>>, now: Seq<Node<T>>, w: Ranks, x: int, cursor: Option<NodeId>) -> bool {
    &&& now.len() == s1.len() && 0 <= x < s1.len()
    // live nodes keep their parent link and their generation
    &&& forall|i: int| 0 <= i < s1.len() && !(#[trigger] now[i]).stamp.removed() ==> now[i].parent == s1[i].parent && now[i].stamp == s1[i].stamp
    // nothing outside the subtree is touched
    &&& forall|i: int|
        0 <= i < s1.len() && !in_sub(s1, w, x, i) ==> same_links(#[trigger] now[i], s1[i]) && now[i].stamp == s1[i].stamp && (!s1[i].stamp.removed()
            ==> now[i].data == s1[i].data)
    // only nodes of the subtree are removed, each exactly once
    &&& forall|i: int|
        0 <= i < s1.len() && (#[trigger] now[i]).stamp.removed() && !s1[i].stamp.removed() ==> in_sub(s1, w, x, i) && now[i].stamp.0 == -s1[i].stamp.0
            - 1
    &&& cursor is Some ==> {
        &&& tgt_ok(now, cursor) && in_sub(s1, w, x, cursor->0.idx()) && in_sub(now, w, x, cursor->0.idx())
        &&& !now[x].stamp.removed() && is_root(now, x)
    }
    // when the walk is over the whole subtree is gone
    &&& cursor is None ==> forall|i: int| 0 <= i < s1.len() && in_sub(s1, w, x, i) ==> (#[trigger] now[i]).stamp.removed()
}

pub proof fn lemma_in_sub_same<T>(s1: Seq<Node<T>>, now: Seq<Node<T>>, w: Ranks, r: int, y: int)
    // @props C04
    requires
        now.len() == s1.len(),
        links_ok(now),
        forall|i: int| 0 <= i < s1.len() && !(#[trigger] now[i]).stamp.removed() ==> now[i].parent == s1[i].parent,
        0 <= y < s1.len(),
        !now[y].stamp.removed(),
    ensures
        in_sub(now, w, r, y) == in_sub(s1, w, r, y),
    decreases (w.depth)(y),
{
    if y != r && now[y].parent is Some && (w.depth)(now[y].parent->0.idx()) < (w.depth)(y) {
        lemma_links_live(now, y);
        lemma_in_sub_same(s1, now, w, r, now[y].parent->0.idx());
    }
}

pub proof fn lemma_rs_descend<T>(s1: Seq<Node<T>>, now: Seq<Node<T>>, w: Ranks, x: int, id: NodeId)
    // @props C04
    requires
        links_ok(now),
        ranked(now, w),
        ranked(s1, w),
        rs_inv(s1, now, w, x, Some(id)),
        now[id.idx()].first_child is Some,
    ensures
        rs_inv(s1, now, w, x, now[id.idx()].first_child),
{
    reveal(node_ok);
    lemma_first_child_in_sub(now, w, x, id);
    let c = now[id.idx()].first_child->0.idx();
    assert(node_ok(now, id.idx()));
    assert(node_ok(now, c));
    assert(now[c].parent == s1[c].parent);
    assert(ranked_at(s1, w, c));
}

#[verifier::spinoff_prover]
#[verifier::rlimit(100)]
pub proof fn lemma_rs_leaf<T>(s1: Seq<Node<T>>, s_in: Seq<Node<T>>, s_mid: Seq<Node<T>>, s_out: Seq<Node<T>>, w: Ranks, x: int, id: NodeId)
    // @props C04
    requires
        links_ok(s_in),
        ranked(s_in, w),
        ranked(s1, w),
        links_ok(s_out),
        ranked(s_out, w),
        rs_inv(s1, s_in, w, x, Some(id)),
        s_in[id.idx()].first_child is None,
        detach_post(s_in, s_mid, id.idx()),
        s_out.len() == s_mid.len(),
        // what free_node(id) promises
        s_out[id.idx()].stamp.0 == -s_mid[id.idx()].stamp.0 - 1,
        forall|i: int|
            0 <= i < s_mid.len() ==> same_links(#[trigger] s_out[i], s_mid[i]) && (i != id.idx() ==> s_out[i].stamp == s_mid[i].stamp) && ((i
                != id.idx() && !s_mid[i].stamp.removed()) ==> s_out[i].data == s_mid[i].data),
    ensures
        rs_inv(s1, s_out, w, x, s_in[id.idx()].parent),
{
    reveal(node_ok);
    let k = id.idx();
    let p = s_in[k].parent;
    assert(node_ok(s_in, k));
    assert(ranked_at(s_in, w, k));
    assert(ranked_at(s1, w, k));
    lemma_leaf_removed_frame(s_in, s_mid, s_out, w, x, id);
    // the neighbours touched by the detach are inside the subtree
    if s_in[k].previous_sibling is Some {
        let a = s_in[k].previous_sibling->0.idx();
        assert(node_ok(s_in, a));
        assert(ranked_at(s1, w, a));
        assert(in_sub(s1, w, x, a));
    }
    if s_in[k].next_sibling is Some {
        let b = s_in[k].next_sibling->0.idx();
        assert(node_ok(s_in, b));
        assert(ranked_at(s1, w, b));
        assert(in_sub(s1, w, x, b));
    }
    if p is Some {
        let pi = p->0.idx();
        assert(node_ok(s_in, pi));
        assert(in_sub(s1, w, x, k) == (k == x || in_sub(s1, w, x, pi)));
        assert(in_sub(s1, w, x, pi));
    } else {
        assert(k == x);
        // x was the last live node of its subtree
        assert forall|i: int| 0 <= i < s1.len() && in_sub(s1, w, x, i) implies (#[trigger] s_out[i]).stamp.removed() by {
            if i != x && !s_out[i].stamp.removed() {
                assert(!s_in[i].stamp.removed());
                lemma_in_sub_same(s1, s_in, w, x, i);
                lemma_childless_not_anc(s_in, w, x, i);
            }
        }
    }
    assert forall|i: int| 0 <= i < s1.len() && !in_sub(s1, w, x, i) implies same_links(#[trigger] s_out[i], s1[i]) && s_out[i].stamp == s1[i].stamp
        && (!s1[i].stamp.removed() ==> s_out[i].data == s1[i].data) by {
        assert(same_links(s_in[i], s1[i]));
        assert(same_links(s_out[i], s_mid[i]));
        assert(i != k);
    }
}

/// C04: `remove_subtree(x)` relative to the state m right after `x.detach()`: exactly x and its
/// descendants are removed (each marked removed once), every other slot keeps all its links, its
/// generation and its payload
pub open spec fn subtree_removed_post<T>(m: Seq<Node<T>>, n: Seq<Node<T>>, x: int) -> bool {
    &&& n.len() == m.len()
    &&& forall|i: int| 0 <= i < m.len() ==> ((#[trigger] n[i]).stamp.removed() <==> (m[i].stamp.removed() || anc(m, x, i)))
    &&& forall|i: int|
        0 <= i < m.len() && !anc(m, x, i) ==> same_links(#[trigger] n[i], m[i]) && n[i].stamp == m[i].stamp && (!m[i].stamp.removed()
            ==> n[i].data == m[i].data)
    &&& forall|i: int| 0 <= i < m.len() && anc(m, x, i) ==> (#[trigger] n[i]).stamp.0 == -m[i].stamp.0 - 1
}

pub proof fn lemma_rs_done<T>(s1: Seq<Node<T>>, now: Seq<Node<T>>, w: Ranks, x: int)
    // @props C04
    requires
        links_ok(s1),
        ranked(s1, w),
        !s1[x].stamp.removed(),
        rs_inv(s1, now, w, x, None),
    ensures
        subtree_removed_post(s1, now, x),
{
    assert forall|i: int| 0 <= i < s1.len() implies (anc(s1, x, i) == in_sub(s1, w, x, i)) && (in_sub(s1, w, x, i) ==> !s1[i].stamp.removed()) by {
        lemma_anc_iff(s1, w, x, i);
        if in_sub(s1, w, x, i) && i != x {
            lemma_links_live(s1, i);
        }
    }
    assert forall|i: int| 0 <= i < s1.len() implies ((#[trigger] now[i]).stamp.removed() <==> (s1[i].stamp.removed() || anc(s1, x, i))) by {
        if !in_sub(s1, w, x, i) {
            assert(same_links(now[i], s1[i]));
        }
    }
    assert forall|i: int| 0 <= i < s1.len() && !anc(s1, x, i) implies same_links(#[trigger] now[i], s1[i]) && now[i].stamp == s1[i].stamp && (
    !s1[i].stamp.removed() ==> now[i].data == s1[i].data) by {}
    assert forall|i: int| 0 <= i < s1.len() && anc(s1, x, i) implies (#[trigger] now[i]).stamp.0 == -s1[i].stamp.0 - 1 by {}
}

// ---- the depth-first tour (C09: balanced Start/End sequence confined to the subtree) ------------
/// tour of the subtree of n: Start(n), the tours of its children in order, End(n)
pub open spec fn tour_node<T>(s: Seq<Node<T>>, w: Ranks, n: NodeId) -> Seq<NodeEdge>
    decreases w.bound - (w.depth)(n.idx()), 1int, 0int,
{
    let i = n.idx();
    if 0 <= i < s.len() && (w.depth)(i) <= w.bound {
        seq![NodeEdge::Start(n)] + tour_list(s, w, s[i].first_child, n) + seq![NodeEdge::End(n)]
    } else {
        seq![NodeEdge::Start(n), NodeEdge::End(n)]
    }
}

/// tours of the sibling c and of all its later siblings (children of p)
pub open spec fn tour_list<T>(s: Seq<Node<T>>, w: Ranks, c: Option<NodeId>, p: NodeId) -> Seq<NodeEdge>
    decreases w.bound - (w.depth)(p.idx()), 0int, (if c is Some { (w.rem)(c->0.idx()) + 1 } else { 0 }),
{
    if c is Some && 0 <= c->0.idx() < s.len() && (w.depth)(c->0.idx()) > (w.depth)(p.idx()) && (w.depth)(c->0.idx()) <= w.bound {
        let ci = c->0.idx();
        let nx = s[ci].next_sibling;
        tour_node(s, w, c->0) + (if nx is Some && (w.rem)(nx->0.idx()) < (w.rem)(ci) {
            tour_list(s, w, nx, p)
        } else {
            Seq::empty()
        })
    } else {
        Seq::empty()
    }
}

/// a sequence of edges in which each edge is followed by its documented depth-first successor
pub open spec fn steps_ok<T>(s: Seq<Node<T>>, e: Seq<NodeEdge>) -> bool {
    forall|k: int| 0 <= k < e.len() - 1 ==> next_edge(s, #[trigger] e[k]) == Some(e[k + 1])
}

pub open spec fn all_below<T>(s: Seq<Node<T>>, w: Ranks, e: Seq<NodeEdge>, d: nat) -> bool {
    forall|k: int| 0 <= k < e.len() ==> tgt_ok(s, Some(edge_node(#[trigger] e[k]))) && (w.depth)(edge_node(e[k]).idx()) > d
}

pub proof fn lemma_steps_concat<T>(s: Seq<Node<T>>, a: Seq<NodeEdge>, b: Seq<NodeEdge>)
    // @props C09
    requires
        steps_ok(s, a),
        steps_ok(s, b),
        a.len() > 0 && b.len() > 0 ==> next_edge(s, a[a.len() - 1]) == Some(b[0]),
    ensures
        steps_ok(s, a + b),
{
    let e = a + b;
    assert forall|k: int| 0 <= k < e.len() - 1 implies next_edge(s, #[trigger] e[k]) == Some(e[k + 1]) by {
        if k < a.len() - 1 {
            assert(e[k] == a[k] && e[k + 1] == a[k + 1]);
        } else if k == a.len() - 1 {
            assert(e[k] == a[k] && e[k + 1] == b[0]);
        } else {
            assert(e[k] == b[k - a.len()] && e[k + 1] == b[k + 1 - a.len()]);
        }
    }
}

/// C09: the tour of n starts at Start(n), ends at End(n), every edge is followed by its documented
/// successor, and every edge strictly inside it belongs to a proper descendant of n
pub proof fn lemma_tour_node<T>(s: Seq<Node<T>>, w: Ranks, n: NodeId)
    // @props C09
    requires
        links_ok(s),
        ranked(s, w),
        tgt_ok(s, Some(n)),
    ensures
        ({
            let e = tour_node(s, w, n);
            &&& e.len() >= 2 && e[0] == NodeEdge::Start(n) && e[e.len() - 1] == NodeEdge::End(n)
            &&& steps_ok(s, e)
            &&& all_below(s, w, e.subrange(1, e.len() - 1), (w.depth)(n.idx()))
        }),
    decreases w.bound - (w.depth)(n.idx()), 1int, 0int,
{
    reveal(node_ok);
    let i = n.idx();
    assert(ranked_at(s, w, i));
    assert(node_ok(s, i));
    let l = tour_list(s, w, s[i].first_child, n);
    let e = tour_node(s, w, n);
    assert(e =~= seq![NodeEdge::Start(n)] + l + seq![NodeEdge::End(n)]);
    if s[i].first_child is Some {
        let c = s[i].first_child->0;
        assert(node_ok(s, c.idx()));
        assert(ranked_at(s, w, c.idx()));
        lemma_id_eq(s[c.idx()].parent->0, n);
        lemma_tour_list(s, w, c, n);
        assert(l.len() >= 2);
        lemma_steps_concat(s, seq![NodeEdge::Start(n)], l);
        lemma_steps_concat(s, seq![NodeEdge::Start(n)] + l, seq![NodeEdge::End(n)]);
        assert(e.subrange(1, e.len() - 1) =~= l);
    } else {
        assert(l =~= Seq::<NodeEdge>::empty());
        assert(e =~= seq![NodeEdge::Start(n), NodeEdge::End(n)]);
        assert(e.subrange(1, e.len() - 1) =~= Seq::<NodeEdge>::empty());
    }
}

pub proof fn lemma_tour_list<T>(s: Seq<Node<T>>, w: Ranks, c: NodeId, p: NodeId)
    // @props C09
    requires
        links_ok(s),
        ranked(s, w),
        tgt_ok(s, Some(c)),
        tgt_ok(s, Some(p)),
        s[c.idx()].parent == Some(p),
    ensures
        ({
            let l = tour_list(s, w, Some(c), p);
            &&& l.len() >= 2 && l[0] == NodeEdge::Start(c)
            &&& steps_ok(s, l)
            &&& next_edge(s, l[l.len() - 1]) == Some(NodeEdge::End(p))
            &&& all_below(s, w, l, (w.depth)(p.idx()))
        }),
    decreases w.bound - (w.depth)(p.idx()), 0int, (w.rem)(c.idx()) + 1,
{
    reveal(node_ok);
    let ci = c.idx();
    assert(ranked_at(s, w, ci));
    assert(node_ok(s, ci));
    lemma_tour_node(s, w, c);
    let t = tour_node(s, w, c);
    let nx = s[ci].next_sibling;
    let d = (w.depth)(p.idx());
    assert forall|k: int| 0 <= k < t.len() implies tgt_ok(s, Some(edge_node(#[trigger] t[k]))) && (w.depth)(edge_node(t[k]).idx()) > d by {
        if 0 < k < t.len() - 1 {
            assert(t.subrange(1, t.len() - 1)[k - 1] == t[k]);
        }
    }
    if nx is Some {
        let x = nx->0;
        assert(node_ok(s, x.idx()));
        assert(ranked_at(s, w, x.idx()));
        lemma_tour_list(s, w, x, p);
        let r = tour_list(s, w, nx, p);
        let l = tour_list(s, w, Some(c), p);
        assert(l =~= t + r);
        lemma_steps_concat(s, t, r);
        assert(l[l.len() - 1] == r[r.len() - 1]);
        assert forall|k: int| 0 <= k < l.len() implies tgt_ok(s, Some(edge_node(#[trigger] l[k]))) && (w.depth)(edge_node(l[k]).idx()) > d by {
            if k < t.len() {
                assert(l[k] == t[k]);
            } else {
                assert(l[k] == r[k - t.len()]);
            }
        }
    } else {
        let l = tour_list(s, w, Some(c), p);
        assert(l =~= t);
    }
}

/// the k-th edge yielded by `node.traverse(arena)`, as determined by the contract of `Traverse::next`
pub open spec fn nth_edge<T>(s: Seq<Node<T>>, root: NodeId, k: nat) -> Option<NodeEdge>
    decreases k,
{
    if k == 0 {
        Some(NodeEdge::Start(root))
    } else {
        match nth_edge(s, root, (k - 1) as nat) {
            Some(e) => trav_step(s, root, e),
            None => None,
        }
    }
}

/// one step of `ReverseTraverse` rooted at `root`
pub open spec fn rtrav_step<T>(s: Seq<Node<T>>, root: NodeId, e: NodeEdge) -> Option<NodeEdge> {
    if e == NodeEdge::Start(root) {
        None
    } else {
        prev_edge(s, e)
    }
}

pub open spec fn rnth_edge<T>(s: Seq<Node<T>>, root: NodeId, k: nat) -> Option<NodeEdge>
    decreases k,
{
    if k == 0 {
        Some(NodeEdge::End(root))
    } else {
        match rnth_edge(s, root, (k - 1) as nat) {
            Some(e) => rtrav_step(s, root, e),
            None => None,
        }
    }
}

pub proof fn lemma_tour_interior<T>(s: Seq<Node<T>>, w: Ranks, root: NodeId, j: int)
    // @props C09
    requires
        links_ok(s),
        ranked(s, w),
        tgt_ok(s, Some(root)),
        0 < j < tour_node(s, w, root).len() - 1,
    ensures
        edge_node(tour_node(s, w, root)[j]).idx() != root.idx(),
        tgt_ok(s, Some(edge_node(tour_node(s, w, root)[j]))),
{
    lemma_tour_node(s, w, root);
    let e = tour_node(s, w, root);
    assert(e.subrange(1, e.len() - 1)[j - 1] == e[j]);
}

/// C09: `traverse` yields exactly the depth-first tour of the subtree of its start node and then stops
pub proof fn lemma_traverse_is_tour<T>(s: Seq<Node<T>>, w: Ranks, root: NodeId, k: nat)
    // @props C09
    requires
        links_ok(s),
        ranked(s, w),
        tgt_ok(s, Some(root)),
    ensures
        k < tour_node(s, w, root).len() ==> nth_edge(s, root, k) == Some(tour_node(s, w, root)[k as int]),
        k >= tour_node(s, w, root).len() ==> nth_edge(s, root, k) is None,
    decreases k,
{
    lemma_tour_node(s, w, root);
    let e = tour_node(s, w, root);
    if k > 0 {
        lemma_traverse_is_tour(s, w, root, (k - 1) as nat);
        if k <= e.len() {
            let j = k - 1;
            if 0 < j < e.len() - 1 {
                lemma_tour_interior(s, w, root, j);
            }
            if j < e.len() - 1 {
                assert(e[j] != NodeEdge::End(root));
                assert(next_edge(s, e[j]) == Some(e[j + 1]));
            }
        }
    }
}

/// C09: `reverse_traverse` is the exact reversal of `traverse`
pub proof fn lemma_reverse_traverse_is_reversed_tour<T>(s: Seq<Node<T>>, w: Ranks, root: NodeId, k: nat)
    // @props C09
    requires
        links_ok(s),
        ranked(s, w),
        tgt_ok(s, Some(root)),
    ensures
        k < tour_node(s, w, root).len() ==> rnth_edge(s, root, k) == Some(tour_node(s, w, root)[tour_node(s, w, root).len() - 1 - k]),
        k >= tour_node(s, w, root).len() ==> rnth_edge(s, root, k) is None,
    decreases k,
{
    lemma_tour_node(s, w, root);
    let e = tour_node(s, w, root);
    let n = e.len();
    if k > 0 {
        lemma_reverse_traverse_is_reversed_tour(s, w, root, (k - 1) as nat);
        if k <= n {
            let j = n - k;  // index of the previous element e[j], we step to e[j - 1]
            if j > 0 {
                if j < n - 1 {
                    lemma_tour_interior(s, w, root, j);
                }
                assert(e[j] != NodeEdge::Start(root));
                // e[j-1] -> e[j] is a documented step, so prev_edge undoes it
                assert(next_edge(s, e[j - 1]) == Some(e[j]));
                if j - 1 > 0 {
                    lemma_tour_interior(s, w, root, j - 1);
                }
                lemma_edge_inverse(s, e[j - 1]);
            }
        }
    }
}

pub proof fn lemma_in_sub_trans<T>(s: Seq<Node<T>>, w: Ranks, a: int, b: int, y: int)
    // @props C09
    requires
        in_sub(s, w, a, b),
        in_sub(s, w, b, y),
    ensures
        in_sub(s, w, a, y),
    decreases (w.depth)(y),
{
    if y != b && y != a {
        lemma_in_sub_trans(s, w, a, b, s[y].parent->0.idx());
    }
}

pub open spec fn all_inside<T>(s: Seq<Node<T>>, w: Ranks, e: Seq<NodeEdge>, a: int) -> bool {
    forall|k: int| 0 <= k < e.len() ==> in_sub(s, w, a, edge_node(#[trigger] e[k]).idx())
}

/// C09: the tour of n never leaves the subtree of n
pub proof fn lemma_tour_confined<T>(s: Seq<Node<T>>, w: Ranks, n: NodeId)
    // @props C09
    requires
        links_ok(s),
        ranked(s, w),
        tgt_ok(s, Some(n)),
    ensures
        all_inside(s, w, tour_node(s, w, n), n.idx()),
    decreases w.bound - (w.depth)(n.idx()), 1int, 0int,
{
    reveal(node_ok);
    let i = n.idx();
    assert(ranked_at(s, w, i));
    assert(node_ok(s, i));
    let l = tour_list(s, w, s[i].first_child, n);
    let e = tour_node(s, w, n);
    assert(e =~= seq![NodeEdge::Start(n)] + l + seq![NodeEdge::End(n)]);
    assert(in_sub(s, w, i, i));
    if s[i].first_child is Some {
        let c = s[i].first_child->0;
        assert(node_ok(s, c.idx()));
        assert(ranked_at(s, w, c.idx()));
        lemma_id_eq(s[c.idx()].parent->0, n);
        lemma_tour_confined_list(s, w, c, n);
    } else {
        assert(l =~= Seq::<NodeEdge>::empty());
    }
    assert forall|k: int| 0 <= k < e.len() implies in_sub(s, w, i, edge_node(#[trigger] e[k]).idx()) by {
        if 0 < k < e.len() - 1 {
            assert(e[k] == l[k - 1]);
        }
    }
}

pub proof fn lemma_tour_confined_list<T>(s: Seq<Node<T>>, w: Ranks, c: NodeId, p: NodeId)
    // @props C09
    requires
        links_ok(s),
        ranked(s, w),
        tgt_ok(s, Some(c)),
        tgt_ok(s, Some(p)),
        s[c.idx()].parent == Some(p),
    ensures
        all_inside(s, w, tour_list(s, w, Some(c), p), p.idx()),
    decreases w.bound - (w.depth)(p.idx()), 0int, (w.rem)(c.idx()) + 1,
{
    reveal(node_ok);
    let ci = c.idx();
    assert(ranked_at(s, w, ci));
    assert(node_ok(s, ci));
    lemma_tour_confined(s, w, c);
    let t = tour_node(s, w, c);
    let nx = s[ci].next_sibling;
    assert(in_sub(s, w, p.idx(), p.idx()));
    assert(in_sub(s, w, p.idx(), ci));
    assert forall|k: int| 0 <= k < t.len() implies in_sub(s, w, p.idx(), edge_node(#[trigger] t[k]).idx()) by {
        lemma_in_sub_trans(s, w, p.idx(), ci, edge_node(t[k]).idx());
    }
    let l = tour_list(s, w, Some(c), p);
    if nx is Some {
        let x = nx->0;
        assert(node_ok(s, x.idx()));
        assert(ranked_at(s, w, x.idx()));
        lemma_tour_confined_list(s, w, x, p);
        let r = tour_list(s, w, nx, p);
        assert(l =~= t + r);
        assert forall|k: int| 0 <= k < l.len() implies in_sub(s, w, p.idx(), edge_node(#[trigger] l[k]).idx()) by {
            if k < t.len() {
                assert(l[k] == t[k]);
            } else {
                assert(l[k] == r[k - t.len()]);
            }
        }
    } else {
        assert(l =~= t);
    }
}

/// what `free_node(x)` may change: nothing about links, and no generation but x's
pub open spec fn free_frame<T>(o: Seq<Node<T>>, n: Seq<Node<T>>, x: int) -> bool {
    &&& n.len() == o.len() && n[x].stamp.removed()
    &&& forall|i: int| 0 <= i < o.len() ==> same_links(#[trigger] n[i], o[i]) && (i != x ==> n[i].stamp == o[i].stamp)
}

/// established once at the start of `free_node`, so that every exit path gets the link invariants
/// (the triggers are the goals themselves: each postcondition is checked on its own at every exit)
pub proof fn lemma_free_links_all<T>(o: Seq<Node<T>>, x: int)
    // @props C12 C01 C02
    requires
        links_ok(o),
        exists|w: Ranks| ranked(o, w),
        0 <= x < o.len(),
        no_links(o[x]),
    ensures
        forall|n: Seq<Node<T>>| free_frame(o, n, x) ==> #[trigger] links_ok(n),
        forall|n: Seq<Node<T>>, w: Ranks| free_frame(o, n, x) && ranked(o, w) ==> #[trigger] ranked(n, w),
        forall|a: Arena<T>| free_frame(o, a.nodes@, x) ==> #[trigger] a.acyclic(),
{
    let w0 = choose|w: Ranks| ranked(o, w);
    assert forall|n: Seq<Node<T>>| free_frame(o, n, x) implies #[trigger] links_ok(n) by {
        lemma_free_links(o, n, w0, x);
    }
    assert forall|n: Seq<Node<T>>, w: Ranks| free_frame(o, n, x) && ranked(o, w) implies #[trigger] ranked(n, w) by {
        lemma_free_links(o, n, w, x);
    }
    assert forall|a: Arena<T>| free_frame(o, a.nodes@, x) implies #[trigger] a.acyclic() by {
        lemma_free_links(o, a.nodes@, w0, x);
        assert(ranked(a.nodes@, w0));
    }
}

/// the free list `free_node(x)` leaves behind, given the one it found
pub open spec fn freed_fl<T>(n: Seq<Node<T>>, x: int, fl: Seq<int>) -> Seq<int> {
    if n[x].stamp.can_reuse() {
        fl.push(x)
    } else {
        fl
    }
}

pub open spec fn fl_ok_state<T>(n: Seq<Node<T>>, first: Option<usize>, last: Option<usize>) -> bool {
    exists|fl: Seq<int>| free_list(n, first, last, fl)
}

/// every state `free_node(x)` may end in, described slot by slot against the state it started from:
/// the freed slot either joins the tail of the free list or (generation counter exhausted) is retired
pub open spec fn freed_state<T>(
    o: Seq<Node<T>>,
    of: Option<usize>,
    ol: Option<usize>,
    n: Seq<Node<T>>,
    nf: Option<usize>,
    nl: Option<usize>,
    x: int,
) -> bool {
    &&& n.len() == o.len()
    &&& n[x].stamp.removed()
    &&& forall|i: int| 0 <= i < o.len() && i != x ==> (#[trigger] n[i]).stamp == o[i].stamp
    &&& if n[x].stamp.can_reuse() {
        &&& n[x].data == NodeData::<T>::NextFree(None)
        &&& nl == Some(x as usize)
        &&& ol is Some ==> nf == of && 0 <= ol->0 < n.len() && n[ol->0 as int].data == NodeData::<T>::NextFree(Some(x as usize))
        &&& ol is None ==> nf == Some(x as usize)
        &&& forall|i: int| 0 <= i < o.len() && i != x && ol != Some(i as usize) ==> (#[trigger] n[i]).data == o[i].data
    } else {
        &&& nf == of && nl == ol
        &&& forall|i: int| 0 <= i < o.len() && i != x ==> (#[trigger] n[i]).data == o[i].data
    }
}

/// established once at the start of `free_node`: whatever path the function takes, if it ends in a
/// `freed_state` then the free list is the old one with x appended (or unchanged when x is retired).
/// The triggers are the goals themselves, so no proof hint is tied to a program point.
pub proof fn lemma_freed_all<T>(o: Seq<Node<T>>, of: Option<usize>, ol: Option<usize>, x: int)
    // @props C07
    requires
        fl_ok_state(o, of, ol),
        0 <= x < o.len(),
        o.len() <= usize::MAX,
        !o[x].stamp.removed(),
    ensures
        forall|n: Seq<Node<T>>, nf: Option<usize>, nl: Option<usize>| freed_state(o, of, ol, n, nf, nl, x) ==> #[trigger] fl_ok_state(n, nf, nl),
        forall|n: Seq<Node<T>>, nf: Option<usize>, nl: Option<usize>, fl: Seq<int>|
            freed_state(o, of, ol, n, nf, nl, x) && free_list(o, of, ol, fl) ==> #[trigger] free_list(n, nf, nl, freed_fl(n, x, fl)),
{
    assert forall|n: Seq<Node<T>>, nf: Option<usize>, nl: Option<usize>, fl: Seq<int>|
        freed_state(o, of, ol, n, nf, nl, x) && free_list(o, of, ol, fl) implies #[trigger] free_list(n, nf, nl, freed_fl(n, x, fl)) by {
        lemma_fl_ends(o, of, ol, fl);
        if n[x].stamp.can_reuse() {
            lemma_fl_push(o, n, of, ol, fl, x, nf, nl);
        } else {
            lemma_fl_retire(o, n, of, ol, fl, x);
        }
    }
    let fl0 = choose|fl: Seq<int>| free_list(o, of, ol, fl);
    assert forall|n: Seq<Node<T>>, nf: Option<usize>, nl: Option<usize>| freed_state(o, of, ol, n, nf, nl, x) implies #[trigger] fl_ok_state(n, nf, nl) by {
        assert(free_list(n, nf, nl, freed_fl(n, x, fl0)));
    }
}

/// established once at the start of `pop_front_free_node`: whatever path the function takes, if it leaves
/// the list ends as `(next of the old head, None if that was the only slot)` the head slot is popped
pub proof fn lemma_popped_all<T>(s: Seq<Node<T>>, of: Option<usize>, ol: Option<usize>)
    // @props C07
    requires
        s.len() <= usize::MAX,
    ensures
        forall|nf: Option<usize>, nl: Option<usize>, fl: Seq<int>|
            free_list(s, of, ol, fl) && fl.len() > 0 && s[fl[0]].data == NodeData::<T>::NextFree(nf) && nl == (if nf is None {
                None
            } else {
                ol
            }) ==> #[trigger] free_list_popped(s, nf, nl, fl.drop_first(), fl[0]),
{
    assert forall|nf: Option<usize>, nl: Option<usize>, fl: Seq<int>|
        free_list(s, of, ol, fl) && fl.len() > 0 && s[fl[0]].data == NodeData::<T>::NextFree(nf) && nl == (if nf is None {
            None
        } else {
            ol
        }) implies #[trigger] free_list_popped(s, nf, nl, fl.drop_first(), fl[0]) by {
        lemma_fl_pop(s, of, ol, fl, nf, nl);
    }
}

/// the ends of every free list of the state (for the skolem of a quantified postcondition)
pub proof fn lemma_fl_ends_all<T>(s: Seq<Node<T>>, first: Option<usize>, last: Option<usize>)
    // @props C07
    ensures
        forall|fl: Seq<int>| #[trigger]
            free_list(s, first, last, fl) ==> {
                &&& first is None <==> fl.len() == 0
                &&& last is None <==> fl.len() == 0
                &&& fl.len() > 0 ==> first == Some(fl[0] as usize) && last == Some(fl[fl.len() - 1] as usize) && 0 <= fl[0] < s.len() && s[fl[0]].data is NextFree
                    && s[fl[0]].stamp.can_reuse()
            },
{
    assert forall|fl: Seq<int>| #[trigger] free_list(s, first, last, fl) implies {
        &&& first is None <==> fl.len() == 0
        &&& last is None <==> fl.len() == 0
        &&& fl.len() > 0 ==> first == Some(fl[0] as usize) && last == Some(fl[fl.len() - 1] as usize) && 0 <= fl[0] < s.len() && s[fl[0]].data is NextFree
            && s[fl[0]].stamp.can_reuse()
    } by {
        lemma_fl_ends(s, first, last, fl);
    }
}

/// the slot `new_node` hands out: the head of the free list, else a new slot at the end
pub open spec fn alloc_slot<T>(o: Seq<Node<T>>, of: Option<usize>) -> int {
    if of is Some {
        of->0 as int
    } else {
        o.len() as int
    }
}

/// the slots of every state `new_node` may end in, against the state it started from
pub open spec fn alloc_nodes<T>(o: Seq<Node<T>>, of: Option<usize>, n: Seq<Node<T>>) -> bool {
    let x = alloc_slot(o, of);
    &&& 0 <= x <= o.len()
    &&& of is Some ==> n.len() == o.len()
    &&& of is None ==> n.len() == o.len() + 1
    &&& forall|i: int| 0 <= i < o.len() && i != x ==> (#[trigger] n[i]) == o[i]
    &&& no_links(n[x]) && !n[x].stamp.removed() && n[x].data is Data
}

/// ... and the ends of its free list: the head slot is unlinked, or nothing changes when the arena grows
pub open spec fn alloc_state<T>(o: Seq<Node<T>>, of: Option<usize>, ol: Option<usize>, n: Seq<Node<T>>, nf: Option<usize>, nl: Option<usize>) -> bool {
    let x = alloc_slot(o, of);
    &&& alloc_nodes(o, of, n)
    &&& of is Some ==> o[x].data == NodeData::<T>::NextFree(nf) && nl == (if nf is None {
        None
    } else {
        ol
    })
    &&& of is None ==> nf == of && nl == ol
}

/// established once at the start of `new_node`, triggered by the postconditions themselves
pub proof fn lemma_alloc_all<T>(o: Seq<Node<T>>, of: Option<usize>, ol: Option<usize>)
    // @props C07 C01 C12
    requires
        links_ok(o),
        exists|w: Ranks| ranked(o, w),
        data_ok(o),
        fl_ok_state(o, of, ol),
        o.len() <= usize::MAX,
    ensures
        forall|n: Seq<Node<T>>| alloc_nodes(o, of, n) ==> #[trigger] links_ok(n),
        forall|n: Seq<Node<T>>| alloc_nodes(o, of, n) ==> #[trigger] data_ok(n),
        forall|a: Arena<T>| alloc_nodes(o, of, a.nodes@) ==> #[trigger] a.acyclic(),
        forall|n: Seq<Node<T>>, nf: Option<usize>, nl: Option<usize>| alloc_state(o, of, ol, n, nf, nl) ==> #[trigger] fl_ok_state(n, nf, nl),
        forall|n: Seq<Node<T>>, nf: Option<usize>, nl: Option<usize>, fl: Seq<int>|
            alloc_state(o, of, ol, n, nf, nl) && free_list(o, of, ol, fl) && fl.len() > 0 ==> #[trigger] free_list(n, nf, nl, fl.drop_first()),
        forall|n: Seq<Node<T>>, nf: Option<usize>, nl: Option<usize>, fl: Seq<int>|
            alloc_state(o, of, ol, n, nf, nl) && free_list(o, of, ol, fl) && fl.len() == 0 ==> #[trigger] free_list(n, nf, nl, fl),
{
    let x = alloc_slot(o, of);
    assert forall|n: Seq<Node<T>>, nf: Option<usize>, nl: Option<usize>, fl: Seq<int>|
        alloc_state(o, of, ol, n, nf, nl) && free_list(o, of, ol, fl) && fl.len() > 0 implies #[trigger] free_list(n, nf, nl, fl.drop_first()) by {
        lemma_fl_ends(o, of, ol, fl);
        lemma_fl_pop(o, of, ol, fl, nf, nl);
        lemma_fl_reuse(o, n, nf, nl, fl.drop_first(), x);
    }
    assert forall|n: Seq<Node<T>>, nf: Option<usize>, nl: Option<usize>, fl: Seq<int>|
        alloc_state(o, of, ol, n, nf, nl) && free_list(o, of, ol, fl) && fl.len() == 0 implies #[trigger] free_list(n, nf, nl, fl) by {
        lemma_fl_ends(o, of, ol, fl);
        lemma_fl_grow(o, n, of, ol, fl);
    }
    let fl0 = choose|fl: Seq<int>| free_list(o, of, ol, fl);
    lemma_fl_ends(o, of, ol, fl0);
    assert forall|n: Seq<Node<T>>, nf: Option<usize>, nl: Option<usize>| alloc_state(o, of, ol, n, nf, nl) implies #[trigger] fl_ok_state(n, nf, nl) by {
        if fl0.len() > 0 {
            assert(free_list(n, nf, nl, fl0.drop_first()));
        } else {
            assert(free_list(n, nf, nl, fl0));
        }
    }
    assert forall|n: Seq<Node<T>>| alloc_nodes(o, of, n) implies #[trigger] links_ok(n) by {
        lemma_alloc_links(o, n, x);
    }
    assert forall|n: Seq<Node<T>>| alloc_nodes(o, of, n) implies #[trigger] data_ok(n) by {
        lemma_alloc_links(o, n, x);
    }
    assert forall|a: Arena<T>| alloc_nodes(o, of, a.nodes@) implies #[trigger] a.acyclic() by {
        lemma_alloc_links(o, a.nodes@, x);
    }
}

/// `run_ok` under another name: what `lemma_deq_all` concludes about the popped run must not match its own
/// trigger again (no matching loop when a proof fails)
pub open spec fn run_ok2<T>(s: Seq<Node<T>>, d: Seq<NodeId>, by_next: bool) -> bool {
    &&& forall|k: int| 0 <= k < d.len() ==> tgt_ok(s, Some(#[trigger] d[k]))
    &&& forall|j: int, k: int|
        0 <= j && k == j + 1 && k < d.len() ==> lnk(s[(#[trigger] d[j]).idx()], by_next) == Some(#[trigger] d[k]) && lnk(s[d[k].idx()], !by_next)
            == Some(d[j])
    &&& forall|j: int, k: int| 0 <= j < k < d.len() ==> (#[trigger] d[j]).idx() != (#[trigger] d[k]).idx()
}

/// established once at the start of `next` / `next_back` of the double-ended iterators: what popping either
/// end of any run does (triggered by the run itself, i.e. by the deque of the postcondition)
#[verifier::spinoff_prover]
#[verifier::rlimit(200)]
pub proof fn lemma_deq_all<T>(s: Seq<Node<T>>, by_next: bool)
    // @props C10
    ensures
        forall|d: Seq<NodeId>| #[trigger]
            run_ok(s, d, by_next) && d.len() > 0 ==> {
                &&& run_ok2(s, d.drop_first(), by_next)
                &&& run_ok2(s, d.drop_last(), by_next)
                &&& tgt_ok(s, Some(d[0])) && tgt_ok(s, Some(d[d.len() - 1]))
                &&& d.len() > 1 ==> {
                    &&& d[0] != d[d.len() - 1]
                    &&& lnk(s[d[0].idx()], by_next) == Some(d[1])
                    &&& lnk(s[d[d.len() - 1].idx()], !by_next) == Some(d[d.len() - 2])
                    &&& d.drop_first()[0] == d[1] && d.drop_first()[d.len() - 2] == d[d.len() - 1]
                    &&& d.drop_last()[0] == d[0] && d.drop_last()[d.len() - 2] == d[d.len() - 2]
                }
            },
{
    assert forall|d: Seq<NodeId>| #[trigger] run_ok(s, d, by_next) && d.len() > 0 implies {
        &&& run_ok2(s, d.drop_first(), by_next)
        &&& run_ok2(s, d.drop_last(), by_next)
        &&& tgt_ok(s, Some(d[0])) && tgt_ok(s, Some(d[d.len() - 1]))
        &&& d.len() > 1 ==> {
            &&& d[0] != d[d.len() - 1]
            &&& lnk(s[d[0].idx()], by_next) == Some(d[1])
            &&& lnk(s[d[d.len() - 1].idx()], !by_next) == Some(d[d.len() - 2])
            &&& d.drop_first()[0] == d[1] && d.drop_first()[d.len() - 2] == d[d.len() - 1]
            &&& d.drop_last()[0] == d[0] && d.drop_last()[d.len() - 2] == d[d.len() - 2]
        }
    } by {
        lemma_deq_pop(s, d, by_next);
        if d.len() > 1 {
            let k = d.len() - 2;
            assert(lnk(s[d[k].idx()], by_next) == Some(d[k + 1]) && lnk(s[d[k + 1].idx()], !by_next) == Some(d[k]));
        }
    }
}

// ---- C03: re-inserting a node where it already is changes nothing ------------------------------
pub proof fn lemma_reinsert_noop<T>(o: Seq<Node<T>>, m: Seq<Node<T>>, n: Seq<Node<T>>, w: Ranks, x: NodeId)
    // @props C03
    requires
        links_ok(o),
        ranked(o, w),
        0 <= x.idx() < o.len(),
        o[x.idx()].stamp == x.stamp,
        !x.stamp.removed(),
        detach_post(o, m, x.idx()),
        insert_post(m, n, x, o[x.idx()].parent, o[x.idx()].previous_sibling, o[x.idx()].next_sibling),
    ensures
        n =~= o,
{
    reveal(node_ok);
    let xi = x.idx();
    assert(node_ok(o, xi));
    lemma_neighbors_distinct(o, w, xi);
    if o[xi].previous_sibling is Some {
        let a = o[xi].previous_sibling->0.idx();
        assert(node_ok(o, a));
        lemma_id_eq(o[a].next_sibling->0, x);
    }
    if o[xi].next_sibling is Some {
        let b = o[xi].next_sibling->0.idx();
        assert(node_ok(o, b));
        lemma_id_eq(o[b].previous_sibling->0, x);
    }
    if o[xi].parent is Some {
        let p = o[xi].parent->0.idx();
        assert(node_ok(o, p));
        if o[xi].previous_sibling is None {
            lemma_id_eq(o[p].first_child->0, x);
        }
        if o[xi].next_sibling is None {
            lemma_id_eq(o[p].last_child->0, x);
        }
    }
    assert forall|i: int| 0 <= i < o.len() implies n[i] == o[i] by {
        assert(m[i].stamp == o[i].stamp);
        assert(n[i].stamp == m[i].stamp);
    }
}

// ---- C06: ids are never reissued, is_removed stays true (arithmetic of the generation stamps) ----
/// the id (slot, g) has been handed out at some earlier time, given the slot's current stamp
pub open spec fn was_issued(st: NodeStamp, g: i16) -> bool {
    0 <= g && g as int <= st.hw()
}

/// `NodeId::is_removed` for an id with generation g whose slot currently has stamp st
pub open spec fn reads_removed(st: NodeStamp, g: i16) -> bool {
    st.0 != g
}

pub proof fn lemma_c06_transitions(st: NodeStamp, g: i16)
    // @props C06
    requires
        was_issued(st, g),
    ensures
        // removing the current occupant (the contract of as_removed / free_node)
        !st.removed() && st.0 > i16::MIN ==> {
            let st2 = NodeStamp((-st.0 - 1) as i16);
            was_issued(st2, g) && reads_removed(st2, g)
        },
        // recycling the slot (the contract of reuse / new_node): a strictly newer generation than any issued one
        st.can_reuse() ==> {
            let st3 = NodeStamp((-st.0) as i16);
            was_issued(st3, g) && st3.0 > g && (reads_removed(st, g) ==> reads_removed(st3, g))
        },
        // an id that reads as removed stays so under both transitions
        reads_removed(st, g) && !st.removed() ==> reads_removed(NodeStamp((-st.0 - 1) as i16), g),
{
}

// ---- descendants() as a whole sequence (C09: depth-first pre-order) -----------------------------
/// the nodes of the Start edges of an edge sequence, in order
pub open spec fn starts(e: Seq<NodeEdge>) -> Seq<NodeId>
    decreases e.len(),
{
    if e.len() == 0 {
        Seq::empty()
    } else {
        match e[0] {
            NodeEdge::Start(n) => seq![n] + starts(e.drop_first()),
            NodeEdge::End(_) => starts(e.drop_first()),
        }
    }
}

/// depth-first pre-order of the subtree of n: n, then the pre-orders of its children in order
pub open spec fn preorder_node<T>(s: Seq<Node<T>>, w: Ranks, n: NodeId) -> Seq<NodeId>
    decreases w.bound - (w.depth)(n.idx()), 1int, 0int,
{
    let i = n.idx();
    if 0 <= i < s.len() && (w.depth)(i) <= w.bound {
        seq![n] + preorder_list(s, w, s[i].first_child, n)
    } else {
        seq![n]
    }
}

pub open spec fn preorder_list<T>(s: Seq<Node<T>>, w: Ranks, c: Option<NodeId>, p: NodeId) -> Seq<NodeId>
    decreases w.bound - (w.depth)(p.idx()), 0int, (if c is Some { (w.rem)(c->0.idx()) + 1 } else { 0 }),
{
    if c is Some && 0 <= c->0.idx() < s.len() && (w.depth)(c->0.idx()) > (w.depth)(p.idx()) && (w.depth)(c->0.idx()) <= w.bound {
        let ci = c->0.idx();
        let nx = s[ci].next_sibling;
        preorder_node(s, w, c->0) + (if nx is Some && (w.rem)(nx->0.idx()) < (w.rem)(ci) {
            preorder_list(s, w, nx, p)
        } else {
            Seq::empty()
        })
    } else {
        Seq::empty()
    }
}

pub proof fn lemma_starts_concat(a: Seq<NodeEdge>, b: Seq<NodeEdge>)
    // @props C09
    ensures
        starts(a + b) =~= starts(a) + starts(b),
    decreases a.len(),
{
    if a.len() == 0 {
        assert(a + b =~= b);
    } else {
        assert((a + b).drop_first() =~= a.drop_first() + b);
        lemma_starts_concat(a.drop_first(), b);
    }
}

pub proof fn lemma_starts_one(e: NodeEdge)
    // @props C09
    ensures
        starts(seq![e]) =~= (match e {
            NodeEdge::Start(n) => seq![n],
            NodeEdge::End(_) => Seq::empty(),
        }),
{
    assert(seq![e].drop_first() =~= Seq::<NodeEdge>::empty());
    assert(starts(Seq::<NodeEdge>::empty()) =~= Seq::<NodeId>::empty());
}

/// C09: the Start edges of the tour of n are the pre-order of the subtree of n
pub proof fn lemma_tour_starts_node<T>(s: Seq<Node<T>>, w: Ranks, n: NodeId)
    // @props C09
    ensures
        starts(tour_node(s, w, n)) =~= preorder_node(s, w, n),
    decreases w.bound - (w.depth)(n.idx()), 1int, 0int,
{
    let i = n.idx();
    lemma_starts_one(NodeEdge::Start(n));
    lemma_starts_one(NodeEdge::End(n));
    if 0 <= i < s.len() && (w.depth)(i) <= w.bound {
        let l = tour_list(s, w, s[i].first_child, n);
        lemma_tour_starts_list(s, w, s[i].first_child, n);
        lemma_starts_concat(seq![NodeEdge::Start(n)], l);
        lemma_starts_concat(seq![NodeEdge::Start(n)] + l, seq![NodeEdge::End(n)]);
    } else {
        assert(seq![NodeEdge::Start(n), NodeEdge::End(n)] =~= seq![NodeEdge::Start(n)] + seq![NodeEdge::End(n)]);
        lemma_starts_concat(seq![NodeEdge::Start(n)], seq![NodeEdge::End(n)]);
    }
}

pub proof fn lemma_tour_starts_list<T>(s: Seq<Node<T>>, w: Ranks, c: Option<NodeId>, p: NodeId)
    // @props C09
    ensures
        starts(tour_list(s, w, c, p)) =~= preorder_list(s, w, c, p),
    decreases w.bound - (w.depth)(p.idx()), 0int, (if c is Some { (w.rem)(c->0.idx()) + 1 } else { 0 }),
{
    if c is Some && 0 <= c->0.idx() < s.len() && (w.depth)(c->0.idx()) > (w.depth)(p.idx()) && (w.depth)(c->0.idx()) <= w.bound {
        let ci = c->0.idx();
        let nx = s[ci].next_sibling;
        lemma_tour_starts_node(s, w, c->0);
        if nx is Some && (w.rem)(nx->0.idx()) < (w.rem)(ci) {
            lemma_tour_starts_list(s, w, nx, p);
            lemma_starts_concat(tour_node(s, w, c->0), tour_list(s, w, nx, p));
        } else {
            assert(tour_node(s, w, c->0) + Seq::<NodeEdge>::empty() =~= tour_node(s, w, c->0));
            assert(preorder_node(s, w, c->0) + Seq::<NodeId>::empty() =~= preorder_node(s, w, c->0));
        }
    } else {
        assert(starts(Seq::<NodeEdge>::empty()) =~= Seq::<NodeId>::empty());
    }
}

/// the state (`Traverse::next` field) of `node.descendants(arena)` before its k-th call of `next`,
/// exactly as the contract of `Descendants::next` determines it
pub open spec fn desc_state<T>(s: Seq<Node<T>>, w: Ranks, root: NodeId, k: nat) -> Option<NodeEdge>
    decreases k,
{
    if k == 0 {
        Some(NodeEdge::Start(root))
    } else {
        match first_start(s, w, root, desc_state(s, w, root, (k - 1) as nat)) {
            Some(st) => trav_step(s, root, st),
            None => None,
        }
    }
}

/// what the k-th call of `Descendants::next` returns, by its contract
pub open spec fn desc_out<T>(s: Seq<Node<T>>, w: Ranks, root: NodeId, k: nat) -> Option<NodeId> {
    match first_start(s, w, root, desc_state(s, w, root, k)) {
        Some(NodeEdge::Start(n)) => Some(n),
        _ => None,
    }
}

/// the edge at position j of a tour, None past its end
pub open spec fn edge_at(t: Seq<NodeEdge>, j: int) -> Option<NodeEdge> {
    if 0 <= j < t.len() {
        Some(t[j])
    } else {
        None
    }
}

/// the first position >= j that holds a Start edge (t.len() if there is none)
pub open spec fn skip_ends(t: Seq<NodeEdge>, j: int) -> int
    decreases t.len() - j,
{
    if 0 <= j < t.len() {
        if t[j] is Start {
            j
        } else {
            skip_ends(t, j + 1)
        }
    } else {
        t.len() as int
    }
}

#[verifier::spinoff_prover]
#[verifier::rlimit(100)]
pub proof fn lemma_skip_ends(t: Seq<NodeEdge>, j: int)
    // @props C09
    requires
        0 <= j <= t.len(),
    ensures
        j <= skip_ends(t, j) <= t.len(),
        skip_ends(t, j) < t.len() ==> t[skip_ends(t, j)] is Start,
        starts(t.subrange(j, t.len() as int)) =~= starts(t.subrange(skip_ends(t, j), t.len() as int)),
        skip_ends(t, j) < t.len() ==> starts(t.subrange(j, t.len() as int)) =~= seq![edge_node(t[skip_ends(t, j)])] + starts(
            t.subrange(skip_ends(t, j) + 1, t.len() as int),
        ),
        skip_ends(t, j) == t.len() ==> starts(t.subrange(j, t.len() as int)) =~= Seq::<NodeId>::empty(),
    decreases t.len() - j,
{
    let n = t.len() as int;
    if j < n {
        let u = t.subrange(j, n);
        assert(u.drop_first() =~= t.subrange(j + 1, n));
        assert(u[0] == t[j]);
        if t[j] is Start {
        } else {
            lemma_skip_ends(t, j + 1);
        }
    } else {
        assert(t.subrange(j, n) =~= Seq::<NodeEdge>::empty());
    }
}

/// `first_start` from position j of the tour of root lands on the first Start at or after j
#[verifier::spinoff_prover]
#[verifier::rlimit(100)]
pub proof fn lemma_first_start_on_tour<T>(s: Seq<Node<T>>, w: Ranks, root: NodeId, j: int)
    // @props C09
    requires
        links_ok(s),
        ranked(s, w),
        tgt_ok(s, Some(root)),
        0 <= j <= tour_node(s, w, root).len(),
    ensures
        first_start(s, w, root, edge_at(tour_node(s, w, root), j)) == edge_at(tour_node(s, w, root), skip_ends(tour_node(s, w, root), j)),
    decreases tour_node(s, w, root).len() - j,
{
    lemma_tour_node(s, w, root);
    let t = tour_node(s, w, root);
    let n = t.len() as int;
    if j < n {
        if t[j] is Start {
        } else {
            // an End edge: the traversal steps on (or stops at End(root), the last edge)
            assert(j > 0);
            if j < n - 1 {
                lemma_tour_interior(s, w, root, j);
                assert(t[j] != NodeEdge::End(root));
                assert(next_edge(s, t[j]) == Some(t[j + 1]));
                lemma_desc_step(s, w, root, t[j]);
                assert(trav_step(s, root, t[j]) == edge_at(t, j + 1));
            } else {
                assert(t[j] == NodeEdge::End(root));
                assert(trav_step(s, root, t[j]) == edge_at(t, j + 1));
            }
            lemma_first_start_on_tour(s, w, root, j + 1);
        }
    }
}

/// the tour position after one call of `Descendants::next` made at position j
pub open spec fn desc_next_pos(t: Seq<NodeEdge>, j: int) -> int {
    let j1 = skip_ends(t, j);
    if j1 < t.len() {
        j1 + 1
    } else {
        t.len() as int
    }
}

/// position in the tour of root that the state before the k-th call of `Descendants::next` points at
pub open spec fn desc_pos<T>(s: Seq<Node<T>>, w: Ranks, root: NodeId, k: nat) -> int
    decreases k,
{
    if k == 0 {
        0
    } else {
        desc_next_pos(tour_node(s, w, root), desc_pos(s, w, root, (k - 1) as nat))
    }
}

/// one call of `Descendants::next` at tour position j: what it returns and where it leaves the state
#[verifier::spinoff_prover]
#[verifier::rlimit(100)]
pub proof fn lemma_desc_call<T>(s: Seq<Node<T>>, w: Ranks, root: NodeId, j: int)
    // @props C09
    requires
        links_ok(s),
        ranked(s, w),
        tgt_ok(s, Some(root)),
        0 <= j <= tour_node(s, w, root).len(),
    ensures
        ({
            let t = tour_node(s, w, root);
            let n = t.len() as int;
            let fs = first_start(s, w, root, edge_at(t, j));
            let rest = starts(t.subrange(j, n));
            let j2 = desc_next_pos(t, j);
            &&& j <= j2 <= n
            &&& (match fs {
                Some(st) => trav_step(s, root, st),
                None => None,
            }) == edge_at(t, j2)
            &&& (match fs {
                Some(NodeEdge::Start(x)) => Some(x),
                _ => None,
            }) == (if rest.len() > 0 {
                Some(rest[0])
            } else {
                None
            })
            &&& starts(t.subrange(j2, n)) =~= (if rest.len() > 0 {
                rest.drop_first()
            } else {
                rest
            })
        }),
{
    lemma_tour_node(s, w, root);
    let t = tour_node(s, w, root);
    let n = t.len() as int;
    lemma_skip_ends(t, j);
    lemma_first_start_on_tour(s, w, root, j);
    let j1 = skip_ends(t, j);
    let rest = starts(t.subrange(j, n));
    if j1 < n {
        // a Start edge lies strictly before the final End(root): the traversal steps to the next position
        assert(t[j1] is Start);
        assert(j1 < n - 1);
        assert(t[j1] != NodeEdge::End(root));
        assert(next_edge(s, t[j1]) == Some(t[j1 + 1]));
        let tail = starts(t.subrange(j1 + 1, n));
        assert(rest =~= seq![edge_node(t[j1])] + tail);
        assert(rest.drop_first() =~= tail);
    } else {
        assert(t.subrange(n, n) =~= Seq::<NodeEdge>::empty());
        assert(starts(t.subrange(n, n)) =~= Seq::<NodeId>::empty());
    }
}

#[verifier::spinoff_prover]
#[verifier::rlimit(100)]
pub proof fn lemma_desc_pos<T>(s: Seq<Node<T>>, w: Ranks, root: NodeId, k: nat)
    // @props C09
    requires
        links_ok(s),
        ranked(s, w),
        tgt_ok(s, Some(root)),
    ensures
        ({
            let t = tour_node(s, w, root);
            let j = desc_pos(s, w, root, k);
            &&& 0 <= j <= t.len()
            &&& desc_state(s, w, root, k) == edge_at(t, j)
            &&& starts(t.subrange(j, t.len() as int)) =~= (if k <= starts(t).len() {
                starts(t).skip(k as int)
            } else {
                Seq::empty()
            })
        }),
    decreases k,
{
    lemma_tour_node(s, w, root);
    let t = tour_node(s, w, root);
    let n = t.len() as int;
    let p = starts(t);
    if k == 0 {
        assert(t.subrange(0, n) =~= t);
        assert(p.skip(0) =~= p);
    } else {
        lemma_desc_pos(s, w, root, (k - 1) as nat);
        let j0 = desc_pos(s, w, root, (k - 1) as nat);
        lemma_desc_call(s, w, root, j0);
        let rest = starts(t.subrange(j0, n));
        if k - 1 < p.len() {
            assert(rest =~= p.skip(k - 1));
            assert(rest.len() > 0);
            assert(p.skip(k - 1).drop_first() =~= p.skip(k as int));
        } else {
            assert(rest.len() == 0);
        }
    }
}

/// C09: `node.descendants(arena)` yields exactly the depth-first pre-order of the subtree of the
/// node (the Start edges of its tour, in order) and then None forever
#[verifier::spinoff_prover]
#[verifier::rlimit(100)]
pub proof fn lemma_descendants_is_preorder<T>(s: Seq<Node<T>>, w: Ranks, root: NodeId, k: nat)
    // @props C09
    requires
        links_ok(s),
        ranked(s, w),
        tgt_ok(s, Some(root)),
    ensures
        k < preorder_node(s, w, root).len() ==> desc_out(s, w, root, k) == Some(preorder_node(s, w, root)[k as int]),
        k >= preorder_node(s, w, root).len() ==> desc_out(s, w, root, k) is None,
{
    lemma_tour_starts_node(s, w, root);
    lemma_desc_pos(s, w, root, k);
    let t = tour_node(s, w, root);
    let p = preorder_node(s, w, root);
    assert(starts(t) =~= p);
    let j = desc_pos(s, w, root, k);
    lemma_desc_call(s, w, root, j);
    if k < p.len() {
        assert(p.skip(k as int).len() > 0);
        assert(p.skip(k as int)[0] == p[k as int]);
    }
}

// ---- C02: a parent walk ends in fewer steps than there are nodes (pigeonhole) --------------------
/// the live slots ("the nodes there are")
pub open spec fn live_set<T>(s: Seq<Node<T>>) -> Set<int> {
    vstd::set_lib::set_int_range(0, s.len() as int).filter(|i: int| !s[i].stamp.removed())
}

/// the slot reached from i by following `parent` k times (staying put at a parentless node)
pub open spec fn up<T>(s: Seq<Node<T>>, i: int, k: nat) -> int
    decreases k,
{
    if k == 0 {
        i
    } else {
        let j = up(s, i, (k - 1) as nat);
        if 0 <= j < s.len() && s[j].parent is Some {
            s[j].parent->0.idx()
        } else {
            j
        }
    }
}

/// number of parent links between i and the parentless node above it
pub open spec fn height<T>(s: Seq<Node<T>>, w: Ranks, i: int) -> nat
    decreases (w.depth)(i),
{
    if 0 <= i < s.len() && s[i].parent is Some && (w.depth)(s[i].parent->0.idx()) < (w.depth)(i) {
        height(s, w, s[i].parent->0.idx()) + 1
    } else {
        0
    }
}

/// i and its ancestors
pub open spec fn anc_set<T>(s: Seq<Node<T>>, w: Ranks, i: int) -> Set<int>
    decreases (w.depth)(i),
{
    if 0 <= i < s.len() && s[i].parent is Some && (w.depth)(s[i].parent->0.idx()) < (w.depth)(i) {
        anc_set(s, w, s[i].parent->0.idx()).insert(i)
    } else {
        Set::empty().insert(i)
    }
}

pub proof fn lemma_up_shift<T>(s: Seq<Node<T>>, i: int, k: nat)
    // @props C02
    requires
        0 <= i < s.len(),
        s[i].parent is Some,
    ensures
        up(s, i, k + 1) == up(s, s[i].parent->0.idx(), k),
    decreases k,
{
    if k > 0 {
        lemma_up_shift(s, i, (k - 1) as nat);
    } else {
        assert(up(s, i, 1) == s[i].parent->0.idx()) by {
            assert(up(s, i, 0) == i);
        }
    }
}

pub proof fn lemma_anc_set<T>(s: Seq<Node<T>>, w: Ranks, i: int)
    // @props C02
    requires
        links_ok(s),
        ranked(s, w),
        0 <= i < s.len(),
        !s[i].stamp.removed(),
    ensures
        anc_set(s, w, i).len() == height(s, w, i) + 1,
        forall|j: int| #[trigger] anc_set(s, w, i).contains(j) ==> 0 <= j < s.len() && !s[j].stamp.removed() && (w.depth)(j) <= (w.depth)(i),
        // the walk really arrives: after height(i) parent steps a parentless node, not earlier
        s[up(s, i, height(s, w, i))].parent is None,
        0 <= up(s, i, height(s, w, i)) < s.len(),
        forall|k: nat| k < height(s, w, i) ==> 0 <= #[trigger] up(s, i, k) < s.len() && s[up(s, i, k)].parent is Some,
    decreases (w.depth)(i),
{
    assert(ranked_at(s, w, i));
    if s[i].parent is Some {
        let p = s[i].parent->0.idx();
        lemma_links_live(s, i);
        lemma_anc_set(s, w, p);
        assert(!anc_set(s, w, p).contains(i));
        let h = height(s, w, p);
        lemma_up_shift(s, i, h);
        assert forall|k: nat| k < height(s, w, i) implies 0 <= #[trigger] up(s, i, k) < s.len() && s[up(s, i, k)].parent is Some by {
            if k > 0 {
                lemma_up_shift(s, i, (k - 1) as nat);
            }
        }
    } else {
        assert(height(s, w, i) == 0);
        assert(up(s, i, 0) == i);
    }
}

/// C02: following parent links from a live node reaches a parentless node in fewer steps than there are nodes
pub proof fn lemma_parent_walk_bound<T>(s: Seq<Node<T>>, w: Ranks, i: int)
    // @props C02
    requires
        links_ok(s),
        ranked(s, w),
        0 <= i < s.len(),
        !s[i].stamp.removed(),
    ensures
        height(s, w, i) < live_set(s).len(),
        live_set(s).len() <= s.len(),
        0 <= up(s, i, height(s, w, i)) < s.len() && s[up(s, i, height(s, w, i))].parent is None,
{
    lemma_anc_set(s, w, i);
    vstd::set_lib::lemma_int_range(0, s.len() as int);
    assert(anc_set(s, w, i).subset_of(live_set(s)));
    vstd::set_lib::lemma_len_subset(anc_set(s, w, i), live_set(s));
    vstd::set_lib::lemma_len_subset(live_set(s), vstd::set_lib::set_int_range(0, s.len() as int));
}

pub proof fn lemma_sibling_facts<T>(s: Seq<Node<T>>, i: int)
    // @props C03 C01
    requires
        links_ok(s),
        0 <= i < s.len(),
    ensures
        s[i].previous_sibling is Some ==> s[s[i].previous_sibling->0.idx()].parent == s[i].parent && s[i].previous_sibling->0.idx() != i,
        s[i].next_sibling is Some ==> s[s[i].next_sibling->0.idx()].parent == s[i].parent && s[i].next_sibling->0.idx() != i,
{
    reveal(node_ok);
    assert(node_ok(s, i));
}

