// ============================================================================================
// Specification vocabulary (DESIGN.md §3).  Pure ghost text: spec functions, proof lemmas and
// the assumed specifications of std functions.  Nothing here is executable code of /repo.
// ============================================================================================

// ---- assumed std specs (trusted; listed in evidence) --------------------------------------
pub assume_specification<T>[ Option::<T>::or ](a: Option<T>, b: Option<T>) -> (r: Option<T>)
    ensures
        r == (if a is Some { a } else { b }),
;

pub assume_specification[ i16::is_negative ](x: i16) -> (r: bool)
    ensures
        r == (x < 0),
;

/// `NonZeroUsize` is a plain wrapper around its value (extensionality).
#[verifier::external_body]
pub proof fn axiom_nonzero_ext(a: NonZeroUsize, b: NonZeroUsize)
    requires
        a@ == b@,
    ensures
        a == b,
{
}

/// A `Vec<Node<T>>` cannot hold `usize::MAX` elements: its allocation is bounded by `isize::MAX`
/// bytes and a `Node<T>` is larger than one byte (five link fields).  So the documented
/// "Too many nodes in the arena" panic of `new_node` is unreachable.
#[verifier::external_body]
pub proof fn axiom_vec_node_len<T>(v: &Vec<Node<T>>)
    ensures
        v@.len() < usize::MAX,
{
}

// derived `PartialEq` on plain data is structural equality (R6)
impl vstd::std_specs::cmp::PartialEqSpecImpl for NodeId {
    open spec fn obeys_eq_spec() -> bool {
        true
    }

    open spec fn eq_spec(&self, other: &NodeId) -> bool {
        *self == *other
    }
}

impl vstd::std_specs::cmp::PartialEqSpecImpl for NodeEdge {
    open spec fn obeys_eq_spec() -> bool {
        true
    }

    open spec fn eq_spec(&self, other: &NodeEdge) -> bool {
        *self == *other
    }
}

// ---- stamps ---------------------------------------------------------------------------------
impl NodeStamp {
    pub open spec fn removed(self) -> bool {
        self.0 < 0
    }

    /// high-water mark: the largest live generation this slot has had
    pub open spec fn hw(self) -> int {
        if self.0 >= 0 {
            self.0 as int
        } else {
            -(self.0 as int) - 1
        }
    }

    pub open spec fn can_reuse(self) -> bool {
        self.0 < 0 && self.0 > i16::MIN
    }
}

impl NodeId {
    pub open spec fn idx(self) -> int {
        self.index1@ as int - 1
    }
}

pub open spec fn is_data<T>(d: NodeData<T>) -> bool {
    d is Data
}

// ---- arena views ----------------------------------------------------------------------------
impl<T> Arena<T> {
    pub open spec fn has(&self, id: NodeId) -> bool {
        0 <= id.idx() < self.nodes@.len()
    }

    pub open spec fn ohas(&self, id: Option<NodeId>) -> bool {
        id is Some ==> self.has(id->0)
    }

    pub open spec fn at(&self, id: NodeId) -> Node<T> {
        self.nodes@[id.idx()]
    }

    /// the id names the node currently stored in its slot
    pub open spec fn live(&self, id: NodeId) -> bool {
        self.has(id) && self.at(id).stamp == id.stamp && !id.stamp.removed()
    }

    /// the id's node has been removed and its slot not yet recycled
    pub open spec fn dead(&self, id: NodeId) -> bool {
        self.has(id) && !id.stamp.removed() && self.at(id).stamp.0 == -(id.stamp.0 as int) - 1
    }

    /// the quantifier of the properties: "live, or removed and not yet recycled"
    pub open spec fn current(&self, id: NodeId) -> bool {
        self.live(id) || self.dead(id)
    }
}

impl<T> IndexSpecImpl<NodeId> for Arena<T> {
    open spec fn index_req(&self, node: &NodeId) -> bool {
        self.has(*node)
    }
}

// ---- link well-formedness (C01, C12) ---------------------------------------------------------
/// a link names a live node of the current generation of its slot
pub open spec fn tgt_ok<T>(s: Seq<Node<T>>, l: Option<NodeId>) -> bool {
    l is Some ==> 0 <= l->0.idx() < s.len() && s[l->0.idx()].stamp == l->0.stamp && !l->0.stamp.removed()
}

pub open spec fn is_me<T>(s: Seq<Node<T>>, i: int, l: Option<NodeId>) -> bool {
    l is Some && l->0.idx() == i && l->0.stamp == s[i].stamp
}

pub open spec fn no_links<T>(n: Node<T>) -> bool {
    n.parent is None && n.previous_sibling is None && n.next_sibling is None && n.first_child is None
        && n.last_child is None
}

pub open spec fn node_ok<T>(s: Seq<Node<T>>, i: int) -> bool {
    let n = s[i];
    if n.stamp.removed() {
        // C12: a removed node reports no parent, no siblings, no children
        no_links(n)
    } else {
        &&& tgt_ok(s, n.parent) && tgt_ok(s, n.previous_sibling) && tgt_ok(s, n.next_sibling)
            && tgt_ok(s, n.first_child) && tgt_ok(s, n.last_child)
        &&& n.next_sibling is Some ==> {
            let y = n.next_sibling->0.idx();
            y != i && is_me(s, i, s[y].previous_sibling) && s[y].parent == n.parent
        }
        &&& n.previous_sibling is Some ==> {
            let y = n.previous_sibling->0.idx();
            y != i && is_me(s, i, s[y].next_sibling) && s[y].parent == n.parent
        }
        &&& n.parent is Some ==> {
            let p = n.parent->0.idx();
            p != i && (n.previous_sibling is None ==> is_me(s, i, s[p].first_child)) && (n.next_sibling is None
                ==> is_me(s, i, s[p].last_child))
        }
        &&& n.first_child is Some ==> {
            let c = n.first_child->0.idx();
            is_me(s, i, s[c].parent) && s[c].previous_sibling is None
        }
        &&& n.last_child is Some ==> {
            let c = n.last_child->0.idx();
            is_me(s, i, s[c].parent) && s[c].next_sibling is None
        }
        &&& (n.first_child is Some) == (n.last_child is Some)
    }
}

pub open spec fn links_ok<T>(s: Seq<Node<T>>) -> bool {
    forall|i: int| 0 <= i < s.len() ==> #[trigger] node_ok(s, i)
}

// ---- acyclicity witnesses (C02) -------------------------------------------------------------
pub struct Ranks {
    pub depth: spec_fn(int) -> nat,
    pub rem: spec_fn(int) -> nat,
    pub pos: spec_fn(int) -> nat,
    pub bound: nat,
}

pub open spec fn ranked_at<T>(s: Seq<Node<T>>, w: Ranks, i: int) -> bool {
    &&& s[i].next_sibling is Some ==> {
        let j = s[i].next_sibling->0.idx();
        (w.rem)(i) > (w.rem)(j) && (w.pos)(i) < (w.pos)(j)
    }
    &&& s[i].parent is Some ==> (w.depth)(i) > (w.depth)(s[i].parent->0.idx())
    &&& (w.depth)(i) <= w.bound
}

pub open spec fn ranked<T>(s: Seq<Node<T>>, w: Ranks) -> bool {
    forall|i: int| 0 <= i < s.len() ==> #[trigger] ranked_at(s, w, i)
}

// ---- payload / free list (C07, C08) ----------------------------------------------------------
pub open spec fn data_ok<T>(s: Seq<Node<T>>) -> bool {
    forall|i: int| 0 <= i < s.len() ==> ((#[trigger] s[i]).stamp.removed() <==> !(s[i].data is Data))
}

/// the linked structure of the free list: `fl` is the sequence of free slots, oldest first
pub open spec fn free_chain<T>(s: Seq<Node<T>>, first: Option<usize>, last: Option<usize>, fl: Seq<int>) -> bool {
    &&& fl.no_duplicates()
    &&& forall|k: int| 0 <= k < fl.len() ==> 0 <= #[trigger] fl[k] < s.len()
    &&& (fl.len() == 0 ==> first is None && last is None)
    &&& (fl.len() > 0 ==> first == Some(fl[0] as usize) && last == Some(fl[fl.len() - 1] as usize))
    &&& forall|k: int|
        0 <= k < fl.len() ==> (#[trigger] s[fl[k]]).data == NodeData::<T>::NextFree(
            if k + 1 < fl.len() {
                Some(fl[k + 1] as usize)
            } else {
                None
            },
        ) && s[fl[k]].stamp.can_reuse()
}

/// no slot is lost: every removed slot that can still be reused is in the list
pub open spec fn fl_complete<T>(s: Seq<Node<T>>, fl: Seq<int>) -> bool {
    forall|i: int| 0 <= i < s.len() && (#[trigger] s[i]).stamp.can_reuse() ==> fl.contains(i)
}

#[verifier::opaque]
pub open spec fn free_list<T>(s: Seq<Node<T>>, first: Option<usize>, last: Option<usize>, fl: Seq<int>) -> bool {
    free_chain(s, first, last, fl) && fl_complete(s, fl)
}

/// `free_list` with one popped slot still waiting to be recycled (inside `new_node` only)
#[verifier::opaque]
pub open spec fn free_list_popped<T>(s: Seq<Node<T>>, first: Option<usize>, last: Option<usize>, fl: Seq<int>, x: int) -> bool {
    &&& free_chain(s, first, last, fl)
    &&& forall|i: int| 0 <= i < s.len() && i != x && (#[trigger] s[i]).stamp.can_reuse() ==> fl.contains(i)
    &&& 0 <= x < s.len() && s[x].stamp.can_reuse() && !(s[x].data is Data) && !fl.contains(x)
}

impl<T> Arena<T> {
    pub open spec fn fl_ok(&self) -> bool {
        exists|fl: Seq<int>| free_list(self.nodes@, self.first_free_slot, self.last_free_slot, fl)
    }

    pub open spec fn acyclic(&self) -> bool {
        exists|w: Ranks| ranked(self.nodes@, w)
    }

    /// the representation invariant of every reachable arena
    pub open spec fn wf(&self) -> bool {
        &&& links_ok(self.nodes@)
        &&& self.acyclic()
        &&& data_ok(self.nodes@)
        &&& self.fl_ok()
    }
}

/// everything but the links of a node
pub open spec fn same_payload<T>(a: Node<T>, b: Node<T>) -> bool {
    a.stamp == b.stamp && a.data == b.data
}

pub open spec fn payload_frame<T>(o: Seq<Node<T>>, n: Seq<Node<T>>) -> bool {
    n.len() == o.len() && forall|i: int| 0 <= i < o.len() ==> same_payload(#[trigger] n[i], o[i])
}

pub proof fn lemma_payload_frame_wf<T>(o: Seq<Node<T>>, n: Seq<Node<T>>, first: Option<usize>, last: Option<usize>)
    requires
        payload_frame(o, n),
    ensures
        data_ok(o) ==> data_ok(n),
        forall|fl: Seq<int>| free_list(o, first, last, fl) ==> free_list(n, first, last, fl),
{
    reveal(free_list);
    assert forall|fl: Seq<int>| free_list(o, first, last, fl) implies free_list(n, first, last, fl) by {
        assert forall|k: int| 0 <= k < fl.len() implies (#[trigger] n[fl[k]]).data == NodeData::<T>::NextFree(
            if k + 1 < fl.len() {
                Some(fl[k + 1] as usize)
            } else {
                None
            },
        ) && n[fl[k]].stamp.can_reuse() by {
            assert(same_payload(n[fl[k]], o[fl[k]]));
        }
        assert forall|i: int| 0 <= i < n.len() && (#[trigger] n[i]).stamp.can_reuse() implies fl.contains(i) by {
            assert(same_payload(n[i], o[i]));
        }
    }
    if data_ok(o) {
        assert forall|i: int| 0 <= i < n.len() implies ((#[trigger] n[i]).stamp.removed() <==> !(n[i].data is Data)) by {
            assert(same_payload(n[i], o[i]));
        }
    }
}

/// `#[derive(Default)]` on `struct NodeStamp(i16)` yields generation 0 (R6)
pub assume_specification[ <NodeStamp as Default>::default ]() -> (r: NodeStamp)
    ensures
        r.0 == 0,
;

pub proof fn lemma_empty_wf<T>()
    ensures
        forall|a: Arena<T>| a.nodes@.len() == 0 && a.first_free_slot is None && a.last_free_slot is None ==> #[trigger] a.wf(),
{
    assert forall|a: Arena<T>| a.nodes@.len() == 0 && a.first_free_slot is None && a.last_free_slot is None implies #[trigger] a.wf() by {
        let w = Ranks { depth: |i: int| 0nat, rem: |i: int| 0nat, pos: |i: int| 0nat, bound: 0 };
        assert(ranked(a.nodes@, w));
        let fl = Seq::<int>::empty();
        reveal(free_list);
        assert(free_list(a.nodes@, a.first_free_slot, a.last_free_slot, fl));
    }
}

/// what the exec code may read off the head and tail of the free list
pub proof fn lemma_fl_ends<T>(s: Seq<Node<T>>, first: Option<usize>, last: Option<usize>, fl: Seq<int>)
    requires
        free_list(s, first, last, fl),
    ensures
        first is None <==> fl.len() == 0,
        last is None <==> fl.len() == 0,
        fl.len() > 0 ==> first == Some(fl[0] as usize) && last == Some(fl[fl.len() - 1] as usize) && 0 <= fl[0] < s.len()
            && 0 <= fl[fl.len() - 1] < s.len() && s[fl[0]].data is NextFree && s[fl[0]].stamp.can_reuse() && s[fl[fl.len()
            - 1]].stamp.can_reuse(),
        forall|i: int| 0 <= i < s.len() && !(#[trigger] s[i]).stamp.can_reuse() ==> !fl.contains(i),
{
    reveal(free_list);
    assert forall|i: int| 0 <= i < s.len() && !(#[trigger] s[i]).stamp.can_reuse() implies !fl.contains(i) by {
        if fl.contains(i) {
            let k = choose|k: int| 0 <= k < fl.len() && fl[k] == i;
            assert(s[fl[k]].stamp.can_reuse());
        }
    }
}

/// popping the head of the free list (the nodes are untouched)
pub proof fn lemma_fl_pop<T>(s: Seq<Node<T>>, first: Option<usize>, last: Option<usize>, fl: Seq<int>, nfirst: Option<usize>, nlast: Option<usize>)
    requires
        free_list(s, first, last, fl),
        fl.len() > 0,
        s[fl[0]].data == NodeData::<T>::NextFree(nfirst),
        nlast == (if nfirst is None { None } else { last }),
        s.len() <= usize::MAX,
    ensures
        free_list_popped(s, nfirst, nlast, fl.drop_first(), fl[0]),
{
    reveal(free_list);
    reveal(free_list_popped);
    let t = fl.drop_first();
    assert forall|k: int| 0 <= k < t.len() implies (#[trigger] s[t[k]]).data == NodeData::<T>::NextFree(
        if k + 1 < t.len() { Some(t[k + 1] as usize) } else { None }) && s[t[k]].stamp.can_reuse() by {
        assert(t[k] == fl[k + 1]);
        assert(s[fl[k + 1]].stamp.can_reuse());
    }
    assert(t.no_duplicates()) by {
        assert forall|p: int, q: int| 0 <= p < t.len() && 0 <= q < t.len() && p != q implies t[p] != t[q] by {
            assert(t[p] == fl[p + 1] && t[q] == fl[q + 1]);
        }
    }
    assert forall|k: int| 0 <= k < t.len() implies 0 <= #[trigger] t[k] < s.len() by {
        assert(t[k] == fl[k + 1]);
    }
    assert(s[fl[0]].stamp.can_reuse());
    if fl.len() > 1 {
        assert(t[0] == fl[1]);
        assert(t[t.len() - 1] == fl[fl.len() - 1]);
    }
    assert forall|i: int| 0 <= i < s.len() && i != fl[0] && (#[trigger] s[i]).stamp.can_reuse() implies t.contains(i) by {
        let k = choose|k: int| 0 <= k < fl.len() && fl[k] == i;
        assert(k > 0);
        assert(t[k - 1] == i);
    }
    assert(!t.contains(fl[0])) by {
        if t.contains(fl[0]) {
            let k = choose|k: int| 0 <= k < t.len() && t[k] == fl[0];
            assert(t[k] == fl[k + 1]);
        }
    }
}

/// pushing slot `x` (live in `o`, removed and reuseable in `n`) at the tail of the free list
pub proof fn lemma_fl_push<T>(o: Seq<Node<T>>, n: Seq<Node<T>>, first: Option<usize>, last: Option<usize>, fl: Seq<int>, x: int, nfirst: Option<usize>, nlast: Option<usize>)
    requires
        free_list(o, first, last, fl),
        0 <= x < o.len(),
        o.len() <= usize::MAX,
        !o[x].stamp.removed(),
        n.len() == o.len(),
        n[x].stamp.can_reuse(),
        n[x].data == NodeData::<T>::NextFree(None),
        forall|i: int| 0 <= i < o.len() && i != x ==> (#[trigger] n[i]).stamp == o[i].stamp,
        fl.len() > 0 ==> n[fl[fl.len() - 1]].data == NodeData::<T>::NextFree(Some(x as usize)) && nfirst == first,
        fl.len() == 0 ==> nfirst == Some(x as usize),
        forall|i: int| 0 <= i < o.len() && i != x && (fl.len() == 0 || i != fl[fl.len() - 1]) ==> (#[trigger] n[i]).data == o[i].data,
        nlast == Some(x as usize),
    ensures
        free_list(n, nfirst, nlast, fl.push(x)),
{
    reveal(free_list);
    let t = fl.push(x);
    assert(!fl.contains(x)) by {
        if fl.contains(x) {
            let k = choose|k: int| 0 <= k < fl.len() && fl[k] == x;
            assert(o[fl[k]].stamp.can_reuse());
        }
    }
    assert(t.no_duplicates()) by {
        assert forall|p: int, q: int| 0 <= p < t.len() && 0 <= q < t.len() && p != q implies t[p] != t[q] by {
            if p < fl.len() && q < fl.len() {
                assert(t[p] == fl[p] && t[q] == fl[q]);
            } else if p < fl.len() {
                assert(fl.contains(t[p]));
            } else {
                assert(fl.contains(t[q]));
            }
        }
    }
    assert forall|k: int| 0 <= k < t.len() implies (#[trigger] n[t[k]]).data == NodeData::<T>::NextFree(
        if k + 1 < t.len() { Some(t[k + 1] as usize) } else { None }) && n[t[k]].stamp.can_reuse() by {
        if k < fl.len() {
            assert(t[k] == fl[k]);
            assert(o[fl[k]].stamp.can_reuse());
            assert(fl.contains(fl[k]));
            if k + 1 < fl.len() {
                assert(t[k + 1] == fl[k + 1]);
                assert(fl[k] != fl[fl.len() - 1]);
            }
        }
    }
    assert forall|i: int| 0 <= i < n.len() && (#[trigger] n[i]).stamp.can_reuse() implies t.contains(i) by {
        if i == x {
            assert(t[fl.len() as int] == x);
        } else {
            assert(o[i].stamp.can_reuse());
            let k = choose|k: int| 0 <= k < fl.len() && fl[k] == i;
            assert(t[k] == i);
        }
    }
    assert forall|k: int| 0 <= k < t.len() implies 0 <= #[trigger] t[k] < n.len() by {
        if k < fl.len() { assert(t[k] == fl[k]); }
    }
    if fl.len() > 0 { assert(t[0] == fl[0]); }
}

/// the free list is untouched by freeing a slot whose generation counter is exhausted
pub proof fn lemma_fl_retire<T>(o: Seq<Node<T>>, n: Seq<Node<T>>, first: Option<usize>, last: Option<usize>, fl: Seq<int>, x: int)
    requires
        free_list(o, first, last, fl),
        0 <= x < o.len(),
        !o[x].stamp.removed(),
        n.len() == o.len(),
        !n[x].stamp.can_reuse(),
        forall|i: int| 0 <= i < o.len() && i != x ==> (#[trigger] n[i]).stamp == o[i].stamp && n[i].data == o[i].data,
    ensures
        free_list(n, first, last, fl),
{
    reveal(free_list);
    assert forall|k: int| 0 <= k < fl.len() implies fl[k] != x by {
        assert(o[fl[k]].stamp.can_reuse());
    }
    assert forall|k: int| 0 <= k < fl.len() implies (#[trigger] n[fl[k]]).data == NodeData::<T>::NextFree(
        if k + 1 < fl.len() { Some(fl[k + 1] as usize) } else { None }) && n[fl[k]].stamp.can_reuse() by {
        assert(o[fl[k]].stamp.can_reuse());
    }
    assert forall|i: int| 0 <= i < n.len() && (#[trigger] n[i]).stamp.can_reuse() implies fl.contains(i) by {
        assert(o[i].stamp.can_reuse());
    }
}

/// the popped slot becomes live again (recycled)
pub proof fn lemma_fl_reuse<T>(o: Seq<Node<T>>, n: Seq<Node<T>>, first: Option<usize>, last: Option<usize>, fl: Seq<int>, x: int)
    requires
        free_list_popped(o, first, last, fl, x),
        n.len() == o.len(),
        !n[x].stamp.removed(),
        forall|i: int| 0 <= i < o.len() && i != x ==> (#[trigger] n[i]).stamp == o[i].stamp && n[i].data == o[i].data,
    ensures
        free_list(n, first, last, fl),
{
    reveal(free_list);
    reveal(free_list_popped);
    assert forall|k: int| 0 <= k < fl.len() implies fl[k] != x by {
        assert(fl.contains(fl[k]));
    }
    assert forall|k: int| 0 <= k < fl.len() implies (#[trigger] n[fl[k]]).data == NodeData::<T>::NextFree(
        if k + 1 < fl.len() { Some(fl[k + 1] as usize) } else { None }) && n[fl[k]].stamp.can_reuse() by {
        assert(o[fl[k]].stamp.can_reuse());
    }
    assert forall|i: int| 0 <= i < n.len() && (#[trigger] n[i]).stamp.can_reuse() implies fl.contains(i) by {
        assert(o[i].stamp.can_reuse());
    }
}

/// appending a fresh live slot does not disturb the free list
pub proof fn lemma_fl_grow<T>(o: Seq<Node<T>>, n: Seq<Node<T>>, first: Option<usize>, last: Option<usize>, fl: Seq<int>)
    requires
        free_list(o, first, last, fl),
        n.len() == o.len() + 1,
        !n[o.len() as int].stamp.removed(),
        forall|i: int| 0 <= i < o.len() ==> (#[trigger] n[i]) == o[i],
    ensures
        free_list(n, first, last, fl),
{
    reveal(free_list);
    assert forall|k: int| 0 <= k < fl.len() implies (#[trigger] n[fl[k]]).data == NodeData::<T>::NextFree(
        if k + 1 < fl.len() { Some(fl[k + 1] as usize) } else { None }) && n[fl[k]].stamp.can_reuse() by {
        assert(o[fl[k]].stamp.can_reuse());
        assert(n[fl[k]] == o[fl[k]]);
    }
    assert forall|i: int| 0 <= i < n.len() && (#[trigger] n[i]).stamp.can_reuse() implies fl.contains(i) by {
        assert(n[i] == o[i]);
    }
}

/// links, ranks and payload tags after a node has been allocated in slot `x`
pub proof fn lemma_alloc_links<T>(o: Seq<Node<T>>, n: Seq<Node<T>>, x: int)
    requires
        links_ok(o),
        exists|w: Ranks| ranked(o, w),
        data_ok(o),
        0 <= x <= o.len(),
        x < o.len() ==> n.len() == o.len() && o[x].stamp.removed(),
        x == o.len() ==> n.len() == o.len() + 1,
        forall|i: int| 0 <= i < o.len() && i != x ==> (#[trigger] n[i]) == o[i],
        no_links(n[x]),
        !n[x].stamp.removed(),
        n[x].data is Data,
    ensures
        links_ok(n),
        exists|w: Ranks| ranked(n, w),
        data_ok(n),
{
    let w = choose|w: Ranks| ranked(o, w);
    let w2 = Ranks { depth: |i: int| if i == x { 0nat } else { (w.depth)(i) }, rem: w.rem, pos: w.pos, bound: w.bound };
    assert forall|i: int| 0 <= i < n.len() implies #[trigger] ranked_at(n, w2, i) by {
        if i != x {
            assert(ranked_at(o, w, i));
            assert(node_ok(o, i));
        }
    }
    assert(ranked(n, w2));
    assert forall|i: int| 0 <= i < n.len() implies #[trigger] node_ok(n, i) by {
        if i != x {
            assert(node_ok(o, i));
        }
    }
    assert forall|i: int| 0 <= i < n.len() implies ((#[trigger] n[i]).stamp.removed() <==> !(n[i].data is Data)) by {
        if i != x {
            assert(n[i] == o[i]);
        }
    }
}

pub proof fn lemma_fl_popped_slot<T>(s: Seq<Node<T>>, first: Option<usize>, last: Option<usize>, fl: Seq<int>, x: int)
    requires
        free_list_popped(s, first, last, fl, x),
    ensures
        0 <= x < s.len() && s[x].stamp.can_reuse() && !(s[x].data is Data),
{
    reveal(free_list_popped);
}

