//! Bounded Kani harnesses for the one function of the claim that is outside Verus's reach:
//! `Arena::get_node_id` (raw pointer range test and pointer arithmetic).  BOUNDED: arenas of at
//! most 3 slots, one removal and one recycling; labelled bounded in the evidence, never counted as
//! proved.  Quick tier: `gni_fresh` (debug build) and `gni_small_recycled` (built without debug assertions:
//! the crate's debug_assert_eq! formatting paths dominate CBMC's time); thorough tier: all three, debug build.  (A node of a *different* arena cannot be checked here: CBMC's pointer model rejects
//! the comparison of pointers into different allocations that the function performs.)
#[cfg(kani)]
mod harness {
    use indextree::Arena;

    /// get_node_id(arena.get(id)) == Some(id) for every id of an arena with 1..=3 fresh nodes
    #[kani::proof]
    #[kani::unwind(5)]
    fn gni_fresh() {
        let mut a: Arena<u8> = Arena::new();
        let n: usize = kani::any();
        kani::assume(n >= 1 && n <= 3);
        let mut ids = [None; 3];
        let mut i = 0;
        while i < n {
            ids[i] = Some(a.new_node(i as u8));
            i += 1;
        }
        let k: usize = kani::any();
        kani::assume(k < n);
        let id = ids[k].unwrap();
        let node = a.get(id).unwrap();
        assert!(a.get_node_id(node) == Some(id));
        assert!(a.get_node_id_at(id.into()) == Some(id));
    }

    /// after one removal and the recycling of that slot (fixed history, symbolic lookup target)
    #[kani::proof]
    #[kani::unwind(5)]
    fn gni_small_recycled() {
        let mut a: Arena<u64> = Arena::new();
        let x = a.new_node(1);
        let y = a.new_node(2);
        x.remove(&mut a);
        let fresh = a.new_node(9);
        let pick: bool = kani::any();
        let id = if pick { fresh } else { y };
        let node = a.get(id).unwrap();
        assert!(a.get_node_id(node) == Some(id));
        assert!(a.get_node_id_at(id.into()) == Some(id));
        assert!(x.is_removed(&a));
    }

    /// the same after one slot has been removed and recycled (free list drained or not)
    #[kani::proof]
    #[kani::unwind(5)]
    fn gni_full_recycled() {
        let mut a: Arena<u64> = Arena::new();
        let x = a.new_node(1);
        let y = a.new_node(2);
        let z = a.new_node(3);
        let which: u8 = kani::any();
        kani::assume(which < 3);
        let two: bool = kani::any();
        let victim = if which == 0 { x } else if which == 1 { y } else { z };
        victim.remove(&mut a);
        if two {
            // a second pending free slot: the free list is not drained by the allocation below
            let other = if which == 0 { y } else { x };
            other.remove(&mut a);
        }
        let fresh = a.new_node(9);
        let node = a.get(fresh).unwrap();
        assert!(a.get_node_id(node) == Some(fresh));
        assert!(!fresh.is_removed(&a));
        assert!(victim.is_removed(&a));
        // a live bystander keeps its id
        if !two {
            let by = if which == 0 { y } else { x };
            assert!(a.get_node_id(a.get(by).unwrap()) == Some(by));
        }
    }
}
